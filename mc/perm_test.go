package mc

import (
	"fmt"
	"testing"
)

func TestPerm(t *testing.T) {
	for n := 1; n <= 7; n++ {
		seen := map[string]bool{}
		for i := 0; i < PermCount(n); i++ {
			p := Perm(n, i)
			chk := make([]bool, n)
			for _, v := range p {
				if v < 0 || v >= n || chk[v] {
					t.Fatalf("n=%d idx=%d not a permutation: %v", n, i, p)
				}
				chk[v] = true
			}
			k := fmt.Sprint(p)
			if seen[k] {
				t.Fatalf("n=%d idx=%d duplicate %v", n, i, p)
			}
			seen[k] = true
		}
	}
}
