package mc

// PermCount returns how many iteration orders of n keys the explorer
// distinguishes: all n! for n <= 4; for larger n the identity, the reversal,
// the n-1 rotations and the n-1 adjacent transpositions (a stated cap).
func PermCount(n int) int {
	switch {
	case n <= 1:
		return 1
	case n == 2:
		return 2
	case n == 3:
		return 6
	case n == 4:
		return 24
	}
	return 2*n - 0
}

// Perm returns permutation number idx (0 = identity) of 0..n-1.
func Perm(n, idx int) []int {
	p := make([]int, n)
	for i := range p {
		p[i] = i
	}
	if idx == 0 {
		return p
	}
	if n <= 4 {
		// idx-th permutation in lexicographic order (factorial number system)
		avail := append([]int{}, p...)
		f := 1
		for i := 2; i < n; i++ {
			f *= i
		}
		out := make([]int, 0, n)
		rem := idx
		for i := n - 1; i >= 0; i-- {
			q := 0
			if f > 0 {
				q = rem / f
				rem = rem % f
			}
			out = append(out, avail[q])
			avail = append(avail[:q], avail[q+1:]...)
			if i > 0 {
				f /= i
			}
		}
		return out
	}
	switch {
	case idx == 1: // reversal
		for i := range p {
			p[i] = n - 1 - i
		}
	case idx < 1+n: // rotations by 1..n-1
		r := idx - 1
		for i := range p {
			p[i] = (i + r) % n
		}
	default: // adjacent transposition
		k := idx - (1 + n)
		p[k], p[k+1] = p[k+1], p[k]
	}
	return p
}
