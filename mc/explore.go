package mc

import (
	"fmt"
	"runtime"
	"runtime/debug"
	"strings"
)

// Kind of a choice point.
type Kind uint8

const (
	// Full: an input-shape decision; every alternative is always explored.
	Full Kind = iota
	// DevK: an environment decision with default 0; choosing alt != 0 costs one
	// deviation, and only executions within the deviation bound are explored.
	DevK
)

type point struct {
	n     int
	kind  Kind
	label string
}

// Exec is one execution of a harness body under the explorer.
type Exec struct {
	R *Run

	harness string
	prefix  []int
	choices []int
	points  []point
	devs    int
	obs     uint64
	failed  []Violation
	diverge string
	render  any
}

type prefixDiverged struct{ msg string }

// Choose takes a Full decision among n alternatives.
func (x *Exec) Choose(n int, label string) int { return x.choose(n, Full, label) }

// Dev takes an environment decision (default 0).
func (x *Exec) Dev(n int, label string) int { return x.choose(n, DevK, label) }

// Bool is Choose(2) as a boolean.
func (x *Exec) Bool(label string) bool { return x.choose(2, Full, label) == 1 }

func (x *Exec) choose(n int, k Kind, label string) int {
	if n <= 0 {
		panic(prefixDiverged{fmt.Sprintf("choice point %q with %d alternatives", label, n)})
	}
	i := len(x.choices)
	c := 0
	if i < len(x.prefix) {
		c = x.prefix[i]
		if c < 0 || c >= n {
			// An out-of-range forced choice is a hard error (nondeterminism
			// escaped or a stale replay file).
			panic(prefixDiverged{fmt.Sprintf("forced choice %d out of range at point %d (%q, n=%d)", c, i, label, n)})
		}
	}
	x.choices = append(x.choices, c)
	x.points = append(x.points, point{n, k, label})
	if k == DevK && c != 0 {
		x.devs++
	}
	return c
}

// Observe mixes values into the execution's observation hash (used by the
// determinism self-test and as the "distinct outcomes" vacuity guard).
func (x *Exec) Observe(parts ...any) {
	x.obs = x.obs*1099511628211 ^ Hash(parts...)
}

// Render attaches a human-readable rendering of the case to the execution; it
// ends up in the replay file of a violation.
func (x *Exec) Render(v any) { x.render = v }

// Fail records an oracle failure with a narrow signature.
func (x *Exec) Fail(sig, f string, a ...any) {
	x.failed = append(x.failed, Violation{Sig: sig, Msg: fmt.Sprintf(f, a...), Harness: x.harness})
}

// Failed reports whether this execution already failed.
func (x *Exec) Failed() bool { return len(x.failed) > 0 }

// Choices returns the decisions taken so far.
func (x *Exec) Choices() []int { return x.choices }

// Explorer enumerates every execution of Body within the deviation bound.
type Explorer struct {
	Name     string
	Body     func(x *Exec)
	DevBound int
	Shard    int
	NShards  int
	R        *Run
	// Reset is called before every execution (e.g. to reset installed hooks).
	Reset func(x *Exec)
	// RecheckEvery re-runs every k-th execution and compares observations.
	RecheckEvery int64
	// ShardDepth: generation at which subtrees are assigned to shards (default 2).
	ShardDepth int

	execs int64
}

func (e *Explorer) runOnce(prefix []int) (x *Exec, infra string) {
	return e.runOnceIn(prefix, e.R)
}

// runOnceIn executes the body with counters going to r (re-executions for the
// determinism self-test count into a scratch Run).
func (e *Explorer) runOnceIn(prefix []int, r *Run) (x *Exec, infra string) {
	x = &Exec{R: r, harness: e.Name, prefix: prefix}
	defer func() {
		if r := recover(); r != nil {
			if d, ok := r.(prefixDiverged); ok {
				infra = d.msg
				return
			}
			// A panic raised INSIDE the library while the harness was using it
			// outside one of its own guarded calls (building a resource, Set,
			// Get ...) is a finding about the library, not an infrastructure
			// failure: report it as a violation with the panicking function.
			if site := libraryFrame(); site != "" {
				prop := e.Name
				if i := strings.Index(prop, "/"); i > 0 {
					prop = prop[:i]
				}
				x.failed = append(x.failed, Violation{
					Sig:     fmt.Sprintf("%s:library-panic:%s:%s", prop, site, slugWords(fmt.Sprint(r), 2)),
					Msg:     fmt.Sprintf("the library panicked in %s while harness %s was using it: %v (choices %v)", site, e.Name, r, x.choices),
					Harness: e.Name,
				})
				return
			}
			infra = fmt.Sprintf("harness body panicked: %v\n%s", r, debug.Stack())
		}
	}()
	if e.Reset != nil {
		e.Reset(x)
	}
	e.Body(x)
	return x, ""
}

func samePoints(a, b []point) bool {
	if len(a) != len(b) {
		return false
	}
	for i := range a {
		if a[i] != b[i] {
			return false
		}
	}
	return true
}

// own reports whether this shard owns the execution / subtree identified by a
// choice prefix.
func (e *Explorer) own(prefix []int) bool {
	if e.NShards <= 1 {
		return true
	}
	h := uint64(1469598103934665603)
	for _, c := range prefix {
		h = (h ^ uint64(c+1)) * 1099511628211
		h ^= h >> 29
	}
	return int(h%uint64(e.NShards)) == e.Shard
}

// Explore runs the search. It returns false if it was cut short by the
// deadline or an infrastructure error.
//
// Sharding is by generation: generation 0 is the root execution, generation g+1
// are the executions obtained from a generation-g execution by changing one
// later choice. Every shard walks generations 0..ShardDepth-1 (running the
// executions it does not own as uncounted probes, only to discover their choice
// points); a subtree rooted at generation ShardDepth is explored by the one
// shard that owns the hash of its prefix. Every execution is counted and judged
// exactly once, by the shard owning its prefix.
func (e *Explorer) Explore() bool {
	if e.NShards <= 0 {
		e.NShards = 1
	}
	if e.RecheckEvery == 0 {
		e.RecheckEvery = 997
	}
	if e.ShardDepth <= 0 {
		e.ShardDepth = 2
	}
	G := e.ShardDepth
	type item struct {
		prefix []int
		from   int // first point whose alternatives are expanded
		gen    int
	}
	stack := []item{{nil, 0, 0}}
	complete := true

	for len(stack) > 0 {
		if e.R.Expired() {
			e.R.Cap("deadline reached in explorer " + e.Name)
			complete = false
			break
		}
		it := stack[len(stack)-1]
		stack = stack[:len(stack)-1]

		probe := it.gen < G && !e.own(it.prefix)
		var x *Exec
		var infra string
		if probe {
			x, infra = e.runOnceIn(it.prefix, NewRun("", ""))
		} else {
			x, infra = e.runOnce(it.prefix)
		}
		if infra != "" {
			e.R.InfraError("%s: %s (prefix %v)", e.Name, infra, it.prefix)
			return false
		}
		if !probe {
			e.execs++
			e.R.Add("executions", 1)
			e.R.Add("choice_points", int64(len(x.points)))
			e.R.Max("max_depth", int64(len(x.points)))
			e.R.Mark("outcomes", x.obs)

			recheck := len(x.failed) > 0 || e.execs%e.RecheckEvery == 0
			if recheck {
				reps := 1
				if len(x.failed) > 0 {
					reps = 2
				}
				for k := 0; k < reps; k++ {
					y, infra2 := e.runOnceIn(x.choices, NewRun("", ""))
					if infra2 != "" || y.obs != x.obs || !samePoints(x.points, y.points) || len(y.failed) != len(x.failed) {
						e.R.InfraError("%s: nondeterministic re-execution of %v (%s)", e.Name, x.choices, infra2)
						return false
					}
					e.R.Add("determinism_rechecks", 1)
				}
			}
			for _, f := range x.failed {
				f.Choices = x.choices
				f.Render = x.render
				e.R.Violate(f)
			}
		}

		// expand alternatives after the prefix
		devBefore := make([]int, len(x.points)+1)
		for i, p := range x.points {
			devBefore[i+1] = devBefore[i]
			if p.kind == DevK && x.choices[i] != 0 {
				devBefore[i+1]++
			}
		}
		for i := len(x.points) - 1; i >= it.from; i-- {
			p := x.points[i]
			if p.kind == DevK && devBefore[i]+1 > e.DevBound {
				if p.n > 1 && !probe {
					e.R.Add("alternatives_beyond_dev_bound", int64(p.n-1))
				}
				continue
			}
			for alt := p.n - 1; alt >= 1; alt-- {
				np := make([]int, i+1)
				copy(np, x.choices[:i])
				np[i] = alt
				if it.gen+1 == G && !e.own(np) {
					continue
				}
				stack = append(stack, item{np, i + 1, it.gen + 1})
			}
		}
	}
	return complete
}

// ReplayChoices runs the body once under a forced choice sequence and returns
// the failures observed.
func ReplayChoices(name string, body func(x *Exec), reset func(x *Exec), r *Run, choices []int) ([]Violation, string) {
	e := &Explorer{Name: name, Body: body, R: r, Reset: reset}
	x, infra := e.runOnce(choices)
	if infra != "" {
		return nil, infra
	}
	return x.failed, ""
}

// libraryFrame returns the innermost function of package jsonapi on the
// panicking stack ("" if the panic did not come from the library).
func libraryFrame() string {
	pcs := make([]uintptr, 64)
	n := runtime.Callers(3, pcs)
	frames := runtime.CallersFrames(pcs[:n])
	for {
		fr, more := frames.Next()
		if i := strings.Index(fr.Function, "mfcochauxlaberge/jsonapi."); i >= 0 {
			fn := fr.Function[i+len("mfcochauxlaberge/jsonapi."):]
			if !strings.HasPrefix(fn, "mc") && !strings.HasPrefix(fn, "Mc") {
				return fn
			}
		}
		if !more {
			return ""
		}
	}
}

func slugWords(s string, n int) string {
	w := strings.Fields(s)
	if len(w) > n {
		w = w[:n]
	}
	var b strings.Builder
	for _, c := range strings.Join(w, "-") {
		switch {
		case c >= 'a' && c <= 'z', c >= 'A' && c <= 'Z', c == '-':
			b.WriteRune(c)
		}
	}
	return b.String()
}
