package mc

import (
	"testing"
	"time"
)

type inner struct {
	a int
	t time.Time
	m map[string]any
}
type outer struct {
	p  *inner
	q  *inner
	s  []string
	mm map[string]inner
}

func TestSnap(t *testing.T) {
	in := &inner{a: 1, t: time.Unix(5, 7), m: map[string]any{"x": time.Unix(1, 0), "y": []byte{1, 2}}}
	o := outer{p: in, q: in, s: []string{"a"}, mm: map[string]inner{"k": {a: 2, t: time.Unix(9, 9)}}}
	s1 := Snap(o)
	in2 := &inner{a: 1, t: time.Unix(5, 7), m: map[string]any{"x": time.Unix(1, 0), "y": []byte{1, 2}}}
	o2 := outer{p: in2, q: in2, s: []string{"a"}, mm: map[string]inner{"k": {a: 2, t: time.Unix(9, 9)}}}
	if s1 != Snap(o2) {
		t.Fatalf("not canonical:\n%s\n%s", s1, Snap(o2))
	}
	o2.q = &inner{a: 1, t: time.Unix(5, 7), m: in2.m}
	if s1 == Snap(o2) {
		t.Fatal("aliasing not captured")
	}
	t.Log(s1)
}
