package mc

import (
	"fmt"
	"runtime/debug"
)

// Sched is Engine C: a cooperative (baton-passing) scheduler. Logical threads
// are goroutines that only run while they hold the baton; the yield hook of the
// instrumented library is the only place where the baton can change hands, so
// exactly one thread runs at a time and a run is a deterministic function of
// the scheduling decisions, which come from an Exec (Engine A): switching away
// from a thread that could continue is a deviation (a preemption), choosing the
// next thread after one finished is a free (Full) choice.
type Sched struct {
	X *Exec
	// Point reports whether a yield site is a scheduling point (nil = all).
	Point func(site int) bool
	// OnPoint is called at every scheduling point before the decision, on the
	// goroutine of the running thread (used by the snapshot monitor).
	OnPoint func(thread, site int)

	threads []*schedThread
	cur     int
	done    chan struct{}
	steps   int
	// Trace records (thread, site) of every scheduling point where a switch happened.
	Switches int
	Panics   []string
}

type schedThread struct {
	id     int
	body   func()
	resume chan struct{}
	fin    bool
}

// Go registers a logical thread.
func (s *Sched) Go(body func()) {
	s.threads = append(s.threads, &schedThread{id: len(s.threads), body: body, resume: make(chan struct{})})
}

func (s *Sched) enabled() []int {
	var out []int
	if !s.threads[s.cur].fin {
		out = append(out, s.cur)
	}
	for _, t := range s.threads {
		if t.id != s.cur && !t.fin {
			out = append(out, t.id)
		}
	}
	return out
}

// Yield is to be installed as the library's yield hook.
func (s *Sched) Yield(site int) {
	if s.Point != nil && !s.Point(site) {
		return
	}
	s.steps++
	if s.OnPoint != nil {
		s.OnPoint(s.cur, site)
	}
	en := s.enabled()
	if len(en) <= 1 {
		return
	}
	// en[0] is the running thread: any other choice is a preemption
	c := s.X.Dev(len(en), fmt.Sprintf("sched@%d/%d", s.cur, len(en)))
	if c == 0 {
		return
	}
	s.Switches++
	me := s.threads[s.cur]
	s.cur = en[c]
	s.threads[s.cur].resume <- struct{}{}
	<-me.resume
}

// finish is called when the running thread's body returned.
func (s *Sched) finish() {
	me := s.threads[s.cur]
	me.fin = true
	en := s.enabled()
	if len(en) == 0 {
		close(s.done)
		return
	}
	c := 0
	if len(en) > 1 {
		c = s.X.Choose(len(en), fmt.Sprintf("next-after-%d/%d", me.id, len(en)))
	}
	s.cur = en[c]
	s.threads[s.cur].resume <- struct{}{}
}

// Run executes all threads to completion under the scheduler. The first
// thread to run is a free choice.
func (s *Sched) Run() (steps int) {
	s.done = make(chan struct{})
	for _, t := range s.threads {
		t := t
		go func() {
			<-t.resume
			func() {
				defer func() {
					if r := recover(); r != nil {
						if d, ok := r.(prefixDiverged); ok {
							s.Panics = append(s.Panics, "DIVERGED: "+d.msg)
						} else {
							s.Panics = append(s.Panics, fmt.Sprintf("thread %d panicked: %v\n%s", t.id, r, debug.Stack()))
						}
					}
				}()
				t.body()
			}()
			s.finish()
		}()
	}
	first := 0
	if len(s.threads) > 1 {
		first = s.X.Choose(len(s.threads), "first thread")
	}
	s.cur = first
	s.threads[first].resume <- struct{}{}
	<-s.done
	return s.steps
}
