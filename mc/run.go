// Package mc holds the exploration engines: a stateless choice-tree explorer
// with deviation bounding (Engine A), an explicit-state breadth-first search
// over operation histories (Engine B) and a cooperative scheduler (Engine C).
package mc

import (
	"encoding/json"
	"fmt"
	"hash/fnv"
	"os"
	"sort"
	"strings"
	"sync"
	"time"
)

// Violation is one oracle failure, identified by a narrow signature.
type Violation struct {
	Sig     string `json:"sig"`
	Msg     string `json:"msg"`
	Harness string `json:"harness"`
	Choices []int  `json:"choices"`
	Render  any    `json:"render,omitempty"`
	Count   int64  `json:"count"`
}

// Run aggregates what one check run (or one shard of it) covered.
type Run struct {
	mu sync.Mutex

	Property string `json:"property"`
	Tier     string `json:"tier"`

	Counters map[string]int64               `json:"counters"`
	Sets     map[string]map[uint64]struct{} `json:"-"`
	SetList  map[string][]uint64            `json:"sets"`
	SetCap   map[string]bool                `json:"set_capped"`
	Samples  []any                          `json:"samples"`
	Viol     map[string]*Violation          `json:"violations"`
	Caps     []string                       `json:"caps"`
	Notes    []string                       `json:"notes"`
	Infra    []string                       `json:"infra_errors"`

	Deadline time.Time `json:"-"`
	sampleN  map[string]int
}

const setCap = 400000

func NewRun(prop, tier string) *Run {
	return &Run{
		Property: prop, Tier: tier,
		Counters: map[string]int64{},
		Sets:     map[string]map[uint64]struct{}{},
		SetCap:   map[string]bool{},
		Viol:     map[string]*Violation{},
		sampleN:  map[string]int{},
	}
}

// Add adds n to a named additive counter.
func (r *Run) Add(name string, n int64) {
	r.mu.Lock()
	r.Counters[name] += n
	r.mu.Unlock()
}

// Max keeps the maximum of a named counter.
func (r *Run) Max(name string, n int64) {
	r.mu.Lock()
	if n > r.Counters[name] {
		r.Counters[name] = n
	}
	r.mu.Unlock()
}

func Hash(parts ...any) uint64 {
	h := fnv.New64a()
	for _, p := range parts {
		switch p := p.(type) {
		case string:
			h.Write([]byte(p))
		case []byte:
			h.Write(p)
		default:
			fmt.Fprint(h, p)
		}
		h.Write([]byte{0})
	}
	return h.Sum64()
}

// Mark records a member of a named set (distinct states, outcomes, ...).
// It reports whether the member is new.
func (r *Run) Mark(set string, key uint64) bool {
	r.mu.Lock()
	defer r.mu.Unlock()
	s := r.Sets[set]
	if s == nil {
		s = map[uint64]struct{}{}
		r.Sets[set] = s
	}
	if _, ok := s[key]; ok {
		return false
	}
	if len(s) >= setCap {
		r.SetCap[set] = true
		return true
	}
	s[key] = struct{}{}
	return true
}

func (r *Run) SetSize(set string) int64 {
	r.mu.Lock()
	defer r.mu.Unlock()
	return int64(len(r.Sets[set]))
}

// Sample keeps up to 3 written-out cases per class.
func (r *Run) Sample(class string, v any) {
	r.mu.Lock()
	defer r.mu.Unlock()
	if r.sampleN[class] >= 2 || len(r.Samples) >= 40 {
		return
	}
	r.sampleN[class]++
	r.Samples = append(r.Samples, map[string]any{"class": class, "case": v})
}

func (r *Run) Cap(what string) {
	r.mu.Lock()
	defer r.mu.Unlock()
	for _, c := range r.Caps {
		if c == what {
			return
		}
	}
	r.Caps = append(r.Caps, what)
}

func (r *Run) Note(what string) {
	r.mu.Lock()
	defer r.mu.Unlock()
	for _, c := range r.Notes {
		if c == what {
			return
		}
	}
	r.Notes = append(r.Notes, what)
}

func (r *Run) InfraError(f string, a ...any) {
	r.mu.Lock()
	defer r.mu.Unlock()
	if len(r.Infra) < 20 {
		r.Infra = append(r.Infra, fmt.Sprintf(f, a...))
	}
}

// Expired reports whether the exploration deadline has passed. Deadlines only
// truncate exploration (exhaustive:false); they are never an oracle.
func (r *Run) Expired() bool {
	return !r.Deadline.IsZero() && time.Now().After(r.Deadline)
}

// Violate records a violation. The example with the fewest choices is kept.
func (r *Run) Violate(v Violation) {
	r.mu.Lock()
	defer r.mu.Unlock()
	old := r.Viol[v.Sig]
	if old == nil {
		v.Count = 1
		cp := v
		cp.Choices = append([]int{}, v.Choices...)
		r.Viol[v.Sig] = &cp
		return
	}
	old.Count++
}

// Save writes the shard result.
func (r *Run) Save(path string) error {
	r.mu.Lock()
	defer r.mu.Unlock()
	r.SetList = map[string][]uint64{}
	for name, s := range r.Sets {
		l := make([]uint64, 0, len(s))
		for k := range s {
			l = append(l, k)
		}
		sort.Slice(l, func(i, j int) bool { return l[i] < l[j] })
		r.SetList[name] = l
	}
	b, err := json.Marshal(r)
	if err != nil {
		return err
	}
	return os.WriteFile(path, b, 0o644)
}

// Load reads a shard result.
func Load(path string) (*Run, error) {
	b, err := os.ReadFile(path)
	if err != nil {
		return nil, err
	}
	r := NewRun("", "")
	if err := json.Unmarshal(b, r); err != nil {
		return nil, err
	}
	for name, l := range r.SetList {
		s := map[uint64]struct{}{}
		for _, k := range l {
			s[k] = struct{}{}
		}
		r.Sets[name] = s
	}
	r.SetList = nil
	if r.Counters == nil {
		r.Counters = map[string]int64{}
	}
	if r.Viol == nil {
		r.Viol = map[string]*Violation{}
	}
	if r.SetCap == nil {
		r.SetCap = map[string]bool{}
	}
	return r, nil
}

// maxCounters are merged with max instead of sum.
var maxCounters = map[string]bool{"max_depth": true, "dev_bound_completed": true, "depth_completed": true}

// Merge folds a shard result into r.
func (r *Run) Merge(o *Run) {
	for k, v := range o.Counters {
		if maxCounters[k] || strings.HasPrefix(k, "ms:") {
			if v > r.Counters[k] {
				r.Counters[k] = v
			}
		} else {
			r.Counters[k] += v
		}
	}
	for name, s := range o.Sets {
		d := r.Sets[name]
		if d == nil {
			d = map[uint64]struct{}{}
			r.Sets[name] = d
		}
		for k := range s {
			if len(d) >= 4*setCap {
				r.SetCap[name] = true
				break
			}
			d[k] = struct{}{}
		}
	}
	for k, v := range o.SetCap {
		if v {
			r.SetCap[k] = true
		}
	}
	for _, s := range o.Samples {
		if len(r.Samples) < 30 {
			r.Samples = append(r.Samples, s)
		}
	}
	for sig, v := range o.Viol {
		old := r.Viol[sig]
		if old == nil {
			cp := *v
			r.Viol[sig] = &cp
		} else {
			old.Count += v.Count
			if len(v.Choices) < len(old.Choices) {
				c := old.Count
				cp := *v
				cp.Count = c
				r.Viol[sig] = &cp
			}
		}
	}
	for _, c := range o.Caps {
		r.Cap(c)
	}
	for _, c := range o.Notes {
		r.Note(c)
	}
	r.Infra = append(r.Infra, o.Infra...)
}
