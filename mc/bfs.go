package mc

import (
	"fmt"
	"runtime/debug"
	"strings"
	"sync"
)

// System is a fresh real object (plus its reference model) that a history of
// operations is replayed on. Live Go objects are never cloned: a successor
// state is reached by replaying the shortest known history on a new System
// and applying one more operation.
type System interface {
	// Apply executes operation op on the real object and on the model and
	// compares them; it returns the failures of this one step. fatal means the
	// state is poisoned (a panic inside the library): it is not expanded.
	Apply(op int) (fails []Violation, fatal bool)
	// Key is the canonical key of the reached state (deep snapshot of the real
	// object and of the model).
	Key() string
}

// Finalizer is implemented by systems whose observations must not be interleaved
// with the operations of a history (reading a lazily-copying object changes it):
// Apply only acts, Final observes once, after the last operation of the history.
type Finalizer interface {
	Final() (fails []Violation, fatal bool)
}

// BFS is Engine B: explicit-state breadth-first search over histories.
type BFS struct {
	Name     string
	NOps     int
	OpName   func(op int) string
	New      func() System
	MaxDepth int
	Workers  int
	R        *Run
	// MaxStates caps the number of distinct states (0 = unlimited).
	MaxStates int
}

type bfsRes struct {
	hist  []int
	key   uint64
	fails []Violation
	fatal bool
	infra string
}

func (b *BFS) replay(hist []int) (res bfsRes) {
	res.hist = hist
	defer func() {
		if r := recover(); r != nil {
			// a panic inside the library outside a guarded call: a violation, not
			// an infrastructure failure (see Explorer.runOnceIn)
			if site := libraryFrame(); site != "" {
				prop := b.Name
				if i := strings.Index(prop, "/"); i > 0 {
					prop = prop[:i]
				}
				res.fails = []Violation{{
					Sig: fmt.Sprintf("%s:library-panic:%s:%s", prop, site, slugWords(fmt.Sprint(r), 2)),
					Msg: fmt.Sprintf("the library panicked in %s while harness %s was using it after %v: %v", site, b.Name, b.RenderHist(hist), r),
				}}
				res.fatal = true
				return
			}
			res.infra = fmt.Sprintf("harness panicked replaying %v: %v\n%s", hist, r, debug.Stack())
		}
	}()
	sys := b.New()
	for i, op := range hist {
		fails, fatal := sys.Apply(op)
		if i == len(hist)-1 {
			res.fails, res.fatal = fails, fatal
		} else if fatal || len(fails) > 0 {
			// a prefix that failed is never extended; reaching here means the
			// replay is not deterministic
			res.infra = fmt.Sprintf("replay of %v diverged at step %d", hist, i)
			return
		}
	}
	// the state key is taken before the final observation: reading may change the object
	if !res.fatal {
		res.key = Hash(sys.Key())
	}
	if f, ok := sys.(Finalizer); ok && len(hist) > 0 {
		fails, fatal := f.Final()
		res.fails = append(res.fails, fails...)
		res.fatal = res.fatal || fatal
	}
	return
}

// RenderHist names the operations of a history.
func (b *BFS) RenderHist(hist []int) []string {
	out := make([]string, len(hist))
	for i, op := range hist {
		out[i] = b.OpName(op)
	}
	return out
}

// Explore runs the search to MaxDepth; it returns false when cut short.
func (b *BFS) Explore() bool {
	if b.Workers <= 0 {
		b.Workers = 1
	}
	init := b.replay(nil)
	if init.infra != "" {
		b.R.InfraError("%s: %s", b.Name, init.infra)
		return false
	}
	seen := map[uint64]struct{}{init.key: {}}
	b.R.Mark("states", Hash(b.Name, init.key))
	frontier := [][]int{{}}
	complete := true

	for depth := 1; depth <= b.MaxDepth && len(frontier) > 0; depth++ {
		if b.R.Expired() {
			b.R.Cap(fmt.Sprintf("deadline reached in %s at depth %d (frontier %d)", b.Name, depth, len(frontier)))
			complete = false
			break
		}
		type job struct{ hist []int }
		jobs := make(chan job, 1024)
		results := make(chan bfsRes, 1024)
		var wg sync.WaitGroup
		for w := 0; w < b.Workers; w++ {
			wg.Add(1)
			go func() {
				defer wg.Done()
				for jb := range jobs {
					results <- b.replay(jb.hist)
				}
			}()
		}
		go func() {
			for _, h := range frontier {
				for op := 0; op < b.NOps; op++ {
					nh := make([]int, len(h)+1)
					copy(nh, h)
					nh[len(h)] = op
					jobs <- job{nh}
				}
			}
			close(jobs)
			wg.Wait()
			close(results)
		}()
		// Collect deterministically: results arrive in any order, so successors
		// are sorted by history before being added to the next frontier.
		var level []bfsRes
		for r := range results {
			level = append(level, r)
		}
		sortResults(level)
		var next [][]int
		for _, r := range level {
			if r.infra != "" {
				b.R.InfraError("%s: %s", b.Name, r.infra)
				return false
			}
			b.R.Add("transitions", 1)
			b.R.Add("histories", 1)
			for _, f := range r.fails {
				f.Harness = b.Name
				f.Choices = r.hist
				f.Render = b.RenderHist(r.hist)
				b.R.Violate(f)
			}
			if r.fatal || len(r.fails) > 0 {
				b.R.Add("failing_transitions_not_expanded", 1)
				continue
			}
			k := r.key
			if _, ok := seen[k]; ok {
				continue
			}
			if b.MaxStates > 0 && len(seen) >= b.MaxStates {
				b.R.Cap(fmt.Sprintf("%s: state cap %d reached at depth %d", b.Name, b.MaxStates, depth))
				complete = false
				continue
			}
			seen[k] = struct{}{}
			b.R.Mark("states", Hash(b.Name, r.key))
			next = append(next, r.hist)
			b.R.Sample(fmt.Sprintf("%s depth %d", b.Name, len(r.hist)), b.RenderHist(r.hist))
		}
		b.R.Max("depth_completed", int64(depth))
		b.R.Max("max_depth", int64(depth))
		frontier = next
	}
	b.R.Add("bfs_states_"+b.Name, int64(len(seen)))
	return complete
}

func sortResults(l []bfsRes) {
	less := func(a, b []int) bool {
		for i := 0; i < len(a) && i < len(b); i++ {
			if a[i] != b[i] {
				return a[i] < b[i]
			}
		}
		return len(a) < len(b)
	}
	// simple merge sort via sort.Slice equivalent without importing sort twice
	quick(l, less)
}

func quick(l []bfsRes, less func(a, b []int) bool) {
	if len(l) < 2 {
		return
	}
	p := l[len(l)/2].hist
	i, j := 0, len(l)-1
	for i <= j {
		for less(l[i].hist, p) {
			i++
		}
		for less(p, l[j].hist) {
			j--
		}
		if i <= j {
			l[i], l[j] = l[j], l[i]
			i++
			j--
		}
	}
	quick(l[:j+1], less)
	quick(l[i:], less)
}

// ReplayHistory re-executes one history and returns the failures of its last step.
func (b *BFS) ReplayHistory(hist []int) ([]Violation, string) {
	// replay prefixes too so that earlier failures are visible
	var all []Violation
	sys := b.New()
	for _, op := range hist {
		fails, fatal := sys.Apply(op)
		all = append(all, fails...)
		if fatal {
			break
		}
	}
	if f, ok := sys.(Finalizer); ok && len(hist) > 0 {
		fails, _ := f.Final()
		all = append(all, fails...)
	}
	return all, ""
}
