package mc

import (
	"fmt"
	"reflect"
	"sort"
	"strings"
	"time"
	"unsafe"
)

// Snap returns a canonical rendering of everything reachable from the given
// values: all struct fields (unexported ones too), maps with sorted keys,
// slices with length and elements, pointers / maps / slices numbered in
// first-visit order (so aliasing structure is captured, addresses are not),
// times as instant+offset, funcs as nil / non-nil.
func Snap(vals ...any) string {
	s := &snapper{seen: map[uintptr]int{}}
	for _, v := range vals {
		s.val(reflect.ValueOf(v), 0)
		s.b.WriteByte(';')
	}
	return s.b.String()
}

// SnapSpare is Snap that also renders the spare capacity of every slice (the
// elements between len and cap of its backing array): memory that is shared by
// everyone holding the slice header, so a write to it (an append to a shared
// slice with room left) is a shared write although no length changes.
func SnapSpare(vals ...any) string {
	s := &snapper{seen: map[uintptr]int{}, spare: true}
	for _, v := range vals {
		s.val(reflect.ValueOf(v), 0)
		s.b.WriteByte(';')
	}
	return s.b.String()
}

// SnapHash is Hash(Snap(...)).
func SnapHash(vals ...any) uint64 { return Hash(Snap(vals...)) }

type snapper struct {
	b     strings.Builder
	seen  map[uintptr]int
	spare bool
}

var timeType = reflect.TypeOf(time.Time{})
var valueType = reflect.TypeOf(reflect.Value{})

// clearRO removes reflect's read-only flag (set on values reached through
// unexported fields) so that Interface() can be used on them. The snapshot only
// reads.
func clearRO(v reflect.Value) reflect.Value {
	type rv struct {
		typ, ptr unsafe.Pointer
		flag     uintptr
	}
	p := (*rv)(unsafe.Pointer(&v))
	p.flag &^= 1<<5 | 1<<6
	return v
}

func (s *snapper) ref(p uintptr) (id int, first bool) {
	if id, ok := s.seen[p]; ok {
		return id, false
	}
	id = len(s.seen) + 1
	s.seen[p] = id
	return id, true
}

func (s *snapper) val(v reflect.Value, depth int) {
	if depth > 200 {
		s.b.WriteString("<deep>")
		return
	}
	if !v.IsValid() {
		s.b.WriteString("nil")
		return
	}
	v = clearRO(v)
	if v.Type() == valueType {
		// a reflect.Value held by the object (Wrapper.val): snapshot what it refers to
		inner := v.Interface().(reflect.Value)
		s.b.WriteString("reflect.Value:")
		if inner.IsValid() && inner.CanAddr() {
			id, first := s.ref(inner.UnsafeAddr())
			fmt.Fprintf(&s.b, "@#%d", id)
			if !first {
				return
			}
		}
		s.val(inner, depth+1)
		return
	}
	if v.Type() == timeType {
		t := v.Interface().(time.Time)
		_, off := t.Zone()
		fmt.Fprintf(&s.b, "time(%d.%09d%+d)", t.Unix(), t.Nanosecond(), off)
		return
	}
	switch v.Kind() {
	case reflect.Bool:
		fmt.Fprintf(&s.b, "%v", v.Bool())
	case reflect.Int, reflect.Int8, reflect.Int16, reflect.Int32, reflect.Int64:
		fmt.Fprintf(&s.b, "%s(%d)", v.Type(), v.Int())
	case reflect.Uint, reflect.Uint8, reflect.Uint16, reflect.Uint32, reflect.Uint64, reflect.Uintptr:
		fmt.Fprintf(&s.b, "%s(%d)", v.Type(), v.Uint())
	case reflect.Float32, reflect.Float64:
		fmt.Fprintf(&s.b, "%s(%v)", v.Type(), v.Float())
	case reflect.Complex64, reflect.Complex128:
		fmt.Fprintf(&s.b, "%v", v.Complex())
	case reflect.String:
		fmt.Fprintf(&s.b, "%q", v.String())
	case reflect.Ptr:
		if v.IsNil() {
			fmt.Fprintf(&s.b, "(%s)nil", v.Type())
			return
		}
		id, first := s.ref(v.Pointer())
		if !first {
			fmt.Fprintf(&s.b, "&#%d", id)
			return
		}
		fmt.Fprintf(&s.b, "&#%d=", id)
		s.val(v.Elem(), depth+1)
	case reflect.Interface:
		if v.IsNil() {
			s.b.WriteString("iface-nil")
			return
		}
		fmt.Fprintf(&s.b, "i<%s>", v.Elem().Type())
		s.val(v.Elem(), depth+1)
	case reflect.Slice:
		if v.IsNil() {
			fmt.Fprintf(&s.b, "(%s)nil", v.Type())
			return
		}
		if v.Len() > 0 {
			// identity of the backing position (aliasing) + content
			id, first := s.ref(v.Pointer())
			fmt.Fprintf(&s.b, "s#%d[%d]", id, v.Len())
			if !first {
				// same start address seen before: still print content, the
				// lengths may differ
			}
		} else {
			s.b.WriteString("s[0]")
		}
		s.b.WriteByte('{')
		if v.Type().Elem().Kind() == reflect.Uint8 {
			for i := 0; i < v.Len(); i++ {
				fmt.Fprintf(&s.b, "%02x", v.Index(i).Uint())
			}
		} else {
			for i := 0; i < v.Len(); i++ {
				s.val(v.Index(i), depth+1)
				s.b.WriteByte(',')
			}
		}
		if s.spare && v.Cap() > v.Len() {
			full := v.Slice3(0, v.Cap(), v.Cap())
			fmt.Fprintf(&s.b, "|spare %d:", v.Cap()-v.Len())
			for i := v.Len(); i < v.Cap(); i++ {
				s.val(full.Index(i), depth+1)
				s.b.WriteByte(',')
			}
		}
		s.b.WriteByte('}')
	case reflect.Array:
		s.b.WriteByte('[')
		for i := 0; i < v.Len(); i++ {
			s.val(v.Index(i), depth+1)
			s.b.WriteByte(',')
		}
		s.b.WriteByte(']')
	case reflect.Map:
		if v.IsNil() {
			fmt.Fprintf(&s.b, "(%s)nil", v.Type())
			return
		}
		id, first := s.ref(v.Pointer())
		if !first {
			fmt.Fprintf(&s.b, "m#%d", id)
			return
		}
		fmt.Fprintf(&s.b, "m#%d{", id)
		type kv struct {
			k string
			v reflect.Value
		}
		var kvs []kv
		it := v.MapRange()
		for it.Next() {
			sub := &snapper{seen: map[uintptr]int{}}
			sub.val(it.Key(), depth+1)
			kvs = append(kvs, kv{sub.b.String(), it.Value()})
		}
		sort.Slice(kvs, func(i, j int) bool { return kvs[i].k < kvs[j].k })
		for _, e := range kvs {
			s.b.WriteString(e.k)
			s.b.WriteByte(':')
			s.val(e.v, depth+1)
			s.b.WriteByte(',')
		}
		s.b.WriteByte('}')
	case reflect.Struct:
		fmt.Fprintf(&s.b, "%s{", v.Type())
		for i := 0; i < v.NumField(); i++ {
			f := v.Field(i)
			s.b.WriteString(v.Type().Field(i).Name)
			s.b.WriteByte('=')
			s.val(f, depth+1)
			s.b.WriteByte(',')
		}
		s.b.WriteByte('}')
	case reflect.Func:
		if v.IsNil() {
			s.b.WriteString("func-nil")
		} else {
			s.b.WriteString("func")
		}
	case reflect.Chan, reflect.UnsafePointer:
		fmt.Fprintf(&s.b, "%s@", v.Type())
	default:
		fmt.Fprintf(&s.b, "?%s", v.Kind())
	}
}
