#!/usr/bin/env bash
# MANIFEST.setup_cmd: build the tools and warm the Go build cache, offline.
set -eu
cd "$(dirname "$0")"
export GOFLAGS=-mod=mod GOPROXY=off GOSUMDB=off GOTOOLCHAIN=local
S="$(mktemp -d "${TMPDIR:-/tmp}/verif-setup.XXXXXX")"
trap 'rm -rf "$S"' EXIT
go build -o "$S/instrument" ./cmd/instrument
"$S/instrument" -repo "${VERIF_REPO:-/repo}" -target /repo -out "$S/ov"
go build -overlay "$S/ov/full.json" -o "$S/runner" ./cmd/runner
go build -overlay "$S/ov/stub.json" -o "$S/runner-stub" ./cmd/runner
go build -race -overlay "$S/ov/stub.json" -o "$S/runner-race" ./cmd/runner
# conformance of the instrumentation: the repository's own suite on the instrumented build
for m in "" reverse rotate; do
  ( cd "${VERIF_REPO:-/repo}" && VERIF_MC_UNIFORM=$m go test -vet=off -count=1 -overlay "$S/ov/full.json" ./... > "$S/conf.log" 2>&1 ) || { cat "$S/conf.log"; echo "setup: repository suite fails on the instrumented build (schedule '$m')"; exit 1; }
done
echo "setup: ok (repository suite passes on the instrumented build under 3 map schedules)"
