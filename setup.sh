#!/usr/bin/env bash
# MANIFEST.setup_cmd: build the tools and warm the Go build cache, offline.
set -eu
cd "$(dirname "$0")"
export GOFLAGS=-mod=mod GOPROXY=off GOSUMDB=off GOTOOLCHAIN=local
S="$(mktemp -d "${TMPDIR:-/tmp}/verif-setup.XXXXXX")"
trap 'rm -rf "$S"' EXIT
go build -o "$S/instrument" ./cmd/instrument
"$S/instrument" -repo "${VERIF_REPO:-/repo}" -out "$S/ov"
go build -overlay "$S/ov/full.json" -o "$S/runner" ./cmd/runner
go build -overlay "$S/ov/stub.json" -o "$S/runner-stub" ./cmd/runner
go build -race -overlay "$S/ov/stub.json" -o "$S/runner-race" ./cmd/runner
echo "setup: ok"
