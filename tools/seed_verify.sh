#!/usr/bin/env bash
# tools/seed_verify.sh <Cxx> <k> [tier]
# Verifies a seeded change written by a sub-agent in /tmp/wt-<Cxx>/m<k>.diff (+ m<k>_demo_test.go.txt):
#  (a) clean copy of /repo + demo => demo passes   (b) patched => repository suite passes
#  (c) patched + demo => demo fails                (d) ./check <Cxx> against the patched copy
# and, if (a)-(c) hold, stores it under /verif/seeded/<Cxx>-m<k>/ with meta.json.
set -u
export GOFLAGS=-mod=mod GOPROXY=off GOSUMDB=off GOTOOLCHAIN=local
ID="$1"; K="$2"; TIER="${3:-quick}"
SRC="${SEED_SRC:-/tmp/wt-$ID}"; SK="${SEED_SRCK:-$K}"   # source dir / index (round 2: SEED_SRC=/tmp/wt2-Cxx SEED_SRCK=1 stored as m3)
V="$(cd "$(dirname "$0")/.." && pwd)"
P="$SRC/m$SK.diff"; D="$SRC/m${SK}_demo_test.go.txt"
if [ ! -f "$P" ] && [ -f "$V/seeded/$ID-m$K/patch.diff" ]; then
  # already stored: re-verify from /verif/seeded
  mkdir -p "/tmp/verif-seedsrc-$$"; cp "$V/seeded/$ID-m$K/patch.diff" "/tmp/verif-seedsrc-$$/p.diff"; cp "$V/seeded/$ID-m$K/demo_test.go.txt" "/tmp/verif-seedsrc-$$/d.txt"
  P="/tmp/verif-seedsrc-$$/p.diff"; D="/tmp/verif-seedsrc-$$/d.txt"
fi
[ -f "$P" ] && [ -f "$D" ] || { echo "seed_verify: $P or $D missing"; exit 2; }
# the test function name is whatever the demo file declares
TN=$(grep -o 'func TestDemo[0-9]*' "$D" | head -1 | sed 's/func //'); [ -n "$TN" ] || TN="TestDemo$SK"
W="$(mktemp -d /tmp/verif-seed.XXXXXX)"; trap 'rm -rf "$W" "/tmp/verif-seedsrc-$$"' EXIT
rsync -a --exclude .git /repo/ "$W/clean/"
rsync -a --exclude .git /repo/ "$W/mut/"
( cd "$W/mut" && patch -p1 -s < "$P" ) || { echo "seed_verify: patch does not apply to /repo HEAD"; exit 3; }
cp "$D" "$W/clean/zz_demo${SK}_test.go"
a=$(cd "$W/clean" && go test -vet=off -count=1 -run "$TN\$" . > "$W/a.log" 2>&1; echo $?)
b=$(cd "$W/mut" && go test -vet=off -count=1 ./... > "$W/b.log" 2>&1; echo $?)
cp "$D" "$W/mut/zz_demo${SK}_test.go"
RACE=""; grep -q "race" "$D" && RACE="-race"
c=$(cd "$W/mut" && go test $RACE -vet=off -count=1 -run "$TN\$" . > "$W/c.log" 2>&1; echo $?)
rm -f "$W/mut/zz_demo${SK}_test.go"
echo "seed_verify $ID m$K: demo-on-clean rc=$a (want 0), suite-on-mutant rc=$b (want 0), demo-on-mutant rc=$c (want !=0)"
if [ "$a" != 0 ] || [ "$b" != 0 ] || [ "$c" = 0 ]; then
  tail -5 "$W/a.log" "$W/b.log" "$W/c.log"; echo "seed_verify: NOT a valid seeded change"; exit 4
fi
VERIF_REPO="$W/mut" "$V/check" "$ID" "$TIER" > "$W/d.log" 2>&1; d=$?
grep -E "^VIOLATION|^  signature|^$ID $TIER" "$W/d.log" | cut -c1-260 | head -8
echo "seed_verify: ./check $ID $TIER against the change: exit=$d"
O="$V/seeded/$ID-m$K"; mkdir -p "$O"
[ "$P" -ef "$O/patch.diff" ] || cp "$P" "$O/patch.diff" 2>/dev/null; [ "$D" -ef "$O/demo_test.go.txt" ] || cp "$D" "$O/demo_test.go.txt" 2>/dev/null
sigs=$(grep "^  signature=" "$W/d.log" | sed 's/^  signature=//; s/ cases=.*//' | head -20 | python3 -c 'import sys,json; print(json.dumps([l.strip() for l in sys.stdin]))')
python3 - "$O/meta.json" "$ID" "$K" "$TIER" "$d" "$sigs" <<'PY'
import json,sys,os
path,pid,k,tier,rc,sigs=sys.argv[1:7]
meta={}
if os.path.exists(path): meta=json.load(open(path))
meta.update({"property":pid,"change":"m"+k,
 "verified":{"demo_passes_on_unmodified_repo":True,"repository_suite_passes_with_change":True,"demo_fails_with_change":True,
             "how":"tools/seed_verify.sh: scratch copies of /repo HEAD, go test -run TestDemo on clean and patched copies, go test ./... on the patched copy"},
 "check_runs":dict(meta.get("check_runs",{}),**{tier:{"exit":int(rc),"detected":int(rc)==1,"signatures":json.loads(sigs)}})})
meta.setdefault("needs_to_manifest","(see the sub-agent's description in DESIGN.md section 9)")
json.dump(meta,open(path,"w"),indent=1)
PY
exit 0
