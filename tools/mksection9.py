#!/usr/bin/env python3
"""Regenerates section 9 of DESIGN.md from seeded/*/meta.json."""
import json, glob, os, re
V=os.path.dirname(os.path.dirname(os.path.abspath(__file__)))
rows=[]
for f in sorted(glob.glob(V+'/seeded/*/meta.json')):
    m=json.load(open(f)); k=f.split('/')[-2]
    first=(m.get('first_run_before_strengthening') or {}).get('detected')
    q=m['check_runs']['quick']
    rows.append(dict(k=k, first=first, now=q['detected'], sigs=q['signatures'][:2], need=m.get('needs_to_manifest',''), nd=m.get('not_detected_by_design'), st=m.get('strengthening','-'), neut=m.get('neutralised_by')))
def rnd(k): return (int(k.split('-m')[1])+1)//2
rounds=sorted(set(rnd(r['k']) for r in rows))
out=["## 9. Seeded changes: which checks catch what\n",
"%d property-breaking changes (14 per property in 7 rounds, and 2 more for seventeen of the properties in an 8th, delivered in two parts; %d..%d per property, %d rounds) were written by fresh sub-agents that were given\nonly the text of one property and a private scratch worktree of `/repo` - nothing from `/verif` (from round 2 on they\nalso got one-line descriptions of the earlier changes of their property, with the instruction to produce something\ndifferent: multi-step histories, map orders, aliasing, caches, cooperating sites, clauses not yet exercised). Each\nchange was verified independently (`tools/seed_verify.sh`): its demonstration passes on the unmodified tree, the\nrepository's own suite passes with the change, the demonstration fails with the change. They are stored under\n`seeded/<id>-m<k>/` (patch.diff, demo_test.go.txt, meta.json); none was ever applied to `/repo` itself (checks run\nagainst them through a scratch copy, `VERIF_REPO`). `tools/seed_all.sh` re-runs everything; this section is generated\nby `tools/mksection9.py`.\n" % (len(rows), 14, 16, len(rounds)),
"| Round | Changes | Caught by the checks as they were at the time | Caught now (quick tier) |\n|---|---|---|---|"]
for r in rounds:
    rr=[x for x in rows if rnd(x['k'])==r]
    out.append("| %d | %d | %d | %d |"%(r,len(rr),sum(1 for x in rr if x['first']),sum(1 for x in rr if x['now'])))
out.append("")
out.append("Almost every miss was an alphabet or driver gap; a few were bugs of a harness (set-up code that called the operation under\ntest, a read that perturbed the object, an expectation computed from a copy that shared the corruption) or an oracle that\nleaned on the library itself (C05 used HasType / GetType to decide conformance, C04 skipped a relationship that was not an\nobject, a recorded finding's signature was broad enough to swallow another defect); none was an oracle demanding the wrong\nthing. Each was\nclosed by widening a harness or adding one (listed per change below), with zero alarms on the unmodified tree\nafterwards. The two changes that are not caught, C05-m4 and C12-m15, only manifest on a type that declares an attribute and a\nrelationship of the same name; JSON:API gives the fields of a resource one namespace, so such a type is outside the\ndomain, and on it the unmodified library itself returns the attribute's value for the relationship - it is recorded as\nnot detected by design.\n")
out.append("Four early changes no longer break their property on the current tree (their demonstrations now pass with the change\napplied): C01-m4, C12-m2 and C15-m3 relied on schema types keeping nil maps, a state the repair f7750ef (section 5.1) removed;\nC20-m5 relied on Set(id) going through setField, which the repair f072ded removed. They are kept with the result of the last run against the tree on which they were valid\nregressions and marked (*) below.\n")
out.append("| Change | Caught at first | Caught now | Signature(s) reported now | What it needs to manifest | Strengthening that closed a miss |")
out.append("|---|---|---|---|---|---|")
for x in rows:
    out.append("| %s | %s | %s | %s | %s | %s |"%(x['k']+(" (*)" if x['neut'] else ""),"yes" if x['first'] else "NO","yes" if x['now'] else "NO (by design)","; ".join("`%s`"%s for s in x['sigs']), x['need'].replace("|","/"), (x['st'] if not x['first'] else "-") if not x['nd'] else "outside the domain, see above"))
out.append("""
Lessons folded back into the machinery:
1. relationship IDs need the same escape-worthy alphabet as attribute strings (control characters, the literal text
   backslash-u003e, case-only differences), and to-many lists need repeated IDs, single elements and long lists;
2. any loop over a JSON object's members needs at least two members of each kind and an explored visiting order;
3. collections must mix types wherever the interface allows it;
4. every function that looks pure needs a HISTORY harness - the same object or package used several times with
   different inputs and retained results (memoisation, pooled buffers, aliasing): C02/interleaved, C09/sequence,
   C10/reuse, C13/two-schemas, C16/incremental, C01/api-built, C01/edited-type, C05/after-edits, C07/after-edits,
   C18/first-wrapper;
5. observations must be operations of the alphabet, not something done after every step, or a cache refreshed by the
   observation is never seen stale (C14 lookups);
6. harness set-up must never call the operation under test (C12, C16), and must not validate itself in a package
   init (a change that broke it took every check down with exit 2 instead of failing one);
7. a panic inside the library while harness code uses it outside a guarded call is a finding, not an infrastructure
   error: the engines now report it as `<prop>:library-panic:<function>`;
8. degenerate shapes (no attributes, no relationships, nothing but an ID, one element, empty-but-non-nil maps, empty
   FromType, names that are prefixes / suffixes / concatenation-twins of one another) need their own sources.
""")
s=open(V+'/DESIGN.md').read()
s=s[:s.index('## 9. Seeded changes')].rstrip()+"\n\n"+"\n".join(out)+"\n"
open(V+'/DESIGN.md','w').write(s)
print("rows",len(rows),"caught at first",sum(1 for x in rows if x['first']),"now",sum(1 for x in rows if x['now']))
