#!/usr/bin/env bash
# verify round-2 seeded changes found in /tmp/wt2-<Cxx>/m{1,2}.diff and store them as <Cxx>-m3 / -m4
cd "$(dirname "$0")/.."
for id in "$@"; do
  for sk in 1 2; do
    k=$((sk+2))
    [ -f /tmp/wt2-$id/m$sk.diff ] || { echo "$id m$k: (no patch delivered)"; continue; }
    SEED_SRC=/tmp/wt2-$id SEED_SRCK=$sk tools/seed_verify.sh $id $k quick 2>&1 | grep "seed_verify\|^  signature" | tr '\n' ' ' | sed 's/seed_verify: //g; s/demo-on-clean rc=0 (want 0), suite-on-mutant rc=0 (want 0), demo-on-mutant rc=1 (want !=0)/valid/' | cut -c1-330; echo
  done
done
