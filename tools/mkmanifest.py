#!/usr/bin/env python3
"""Regenerates /verif/MANIFEST.json from the table below (kept in sync with props/*.go)."""
import json, os, sys

V = os.path.dirname(os.path.dirname(os.path.abspath(__file__)))

A = "choice-tree explorer (Engine A)"
B = "explicit-state BFS over histories (Engine B)"
C = "cooperative scheduler + snapshot monitor (Engine C)"

CHECKS = {
 "C01": (A, "4.C01", "Every (kind, boundary value, implementation) triple, every 2-way combination of kinds in a 28-attribute type and every (id, to-one, to-many list) combination is round-tripped through both the resource and the document path and compared field by field with an independent comparator: a coverage statement over the stated alphabets, not a sample.",
         "bounded exhaustive enumeration of inputs on the real marshal/unmarshal code, independent field comparator"),
 "C04": (A, "4.C04", "The complete product of field selections (all 16 subsets + unknown/id/duplicate/missing/nil), relationship-data requests, positions in the document and implementations is marshaled and judged by set arithmetic on the decoded JSON.",
         "complete enumeration of the finite selection space on the real marshaler"),
 "C06": (A, "4.C06", "Every integer literal in [-70000,70000] plus all power-of-two/ten neighbourhoods up to 2^70, fractions, exponents and wrong JSON kinds for all 20 integer kinds; string/time/bytes alphabets in several encodings; the complete product of whole-payload shapes: accepted => stored value equals an arbitrary-precision reading of the literal.",
         "bounded exhaustive enumeration of literals x kinds against a math/big reference reading"),
 "C10": (A, "4.C10", "All ordered pairs of each kind's alphabet x all operators x both implementations, every and/or tree within a depth/fan-out bound, against an independent evaluator plus trichotomy/complement laws.",
         "complete enumeration of (kind, operator, value pair) and of bounded filter trees vs reference evaluator"),
 "C13": (A, "4.C13", "The complete product of attribute presence/validity and relationship-object forms for soft and struct-backed types; partial and full unmarshaling are compared on every payload.",
         "complete enumeration of payload shapes, differential oracle against full unmarshaling"),
 "C14": (B, "4.C14", "All histories of 57 schema-edit operations up to the stated depth on the real Schema, de-duplicated by deep heap snapshot, each transition compared with a list-of-types model (errors, all-or-nothing, invariants, lookups).",
         "explicit-state BFS over operation histories of the real object vs reference model"),
 "C15": (A, "4.C15", "ALL schemas over two (thorough: three) types with two relationship slots each (19 options per slot) and every iteration order of one map loop inside Check; independent offender count.",
         "complete enumeration of the schema space + map-iteration schedules (deviation bound 1)"),
 "C16": (A, "4.C16", "All 9604 Rel values over a collision-prone name alphabet for the algebraic laws; every coherent schema of a slot-built family x every AddType order x map schedules for Rels().",
         "complete enumeration of Rel values and small schemas, map-iteration schedules (deviation bound 1)"),
 "C17": (B, "4.C17", "For each of the 28 kinds all Set histories to the stated depth on a soft and a wrapped resource side by side vs a map model; all ordered pairs of a pool of single-aspect variants for the equality laws; all constructors of fresh resources.",
         "explicit-state BFS over Set histories on both implementations side by side + exhaustive pairs for equality laws"),
 "C18": (B, "4.C18", "All mutation histories (13 mutations x 2 sides) to the stated depth after Copy()/New()/Type.Copy() for both implementations; after every step everything readable from the other side must be unchanged.",
         "explicit-state BFS over mutation histories, 'other side unchanged' snapshot oracle"),
 "C02": (A, "4.C02", "The complete product of 14 primary-data kinds x included lists x metas x error lists x prefixes x selections x relationship-data requests, all 256 member subsets of an error object and all pairs/triples of representative errors are marshaled and unmarshaled; kind of data, members in order, included set, meta and error members are compared by an oracle written in the harness.",
         "complete enumeration of a finite document space on the real marshal/unmarshal code, independent comparator"),
 "C03": (A + " + " + B, "4.C03", "Every document of the C02 product that marshals is parsed by an independent JSON:API structure validator; all Include sequences up to the stated depth over colliding resources for 7 primary-data implementations are explored breadth-first and every resulting document is validated and checked for duplicate type/ID pairs.",
         "complete enumeration of documents + explicit-state BFS over Include histories, independent structure validator"),
 "C05": (A, "4.C05", "All byte strings up to length 4 (thorough 6) over a 13-symbol alphabet, every truncation of 8 base payloads, all single (and double) kind-replacement deviations at every value position, a nesting ladder and the 28-kind x 16-value matrix, through 9 entry points and two schemas: no panic, error xor result, on-schema results.",
         "bounded exhaustive enumeration of byte strings and of deviations from valid payloads (deviation bound 1-2)"),
 "C07": (A, "4.C07", "Every path of 0..6 fragments over per-position alphabets and every ordered sequence of up to 2 (thorough 3) parameters from a ~100-instance menu on 16 paths, with the iteration order of the query map as a deviation-bounded choice; the result is judged against an independent reading of the request.",
         "bounded exhaustive enumeration of URL shapes + map-iteration schedules (deviation bound 1), independent request reader"),
 "C08": (A, "4.C08", "Every accepted URL of the C07 query space, reserved characters at 6 positions, all bounded filter trees: String() -> parse -> same URL -> same String(), and every permutation of parameters / list items yields the same String().",
         "bounded exhaustive enumeration of accepted URLs and of their permutations, fixpoint oracle"),
 "C09": (A, "4.C09", "28 kinds x 4 collection implementations x every value assignment of a 3-value alphabet to 3 (thorough 4) resources x all 31 rule lists x ALL initial orders x page sizes; ID subsets x filters x page geometries incl. sizes >= 2^63: compared with an independent select/filter/comparator/slice.",
         "bounded exhaustive enumeration of collections, initial orders, rules and page geometry vs reference sort"),
 "C11": (A, "4.C11", "For 8 base documents every map-iteration order of every loop instance met while marshaling is an environment choice (all executions with <= 1, thorough 2, deviating loops; uniform reversed/rotated schedules); all permutations of the order-irrelevant content; repetition: byte-identical output and unchanged inputs.",
         "stateless exploration of map-iteration schedules (deviation-bounded) + exhaustive content permutations"),
 "C12": (C + " + " + A, "4.C12", "Every operation run alone under a snapshot monitor that re-hashes the shared schema after every statement (no write step => by the lemma no interleaving has one); all schedules of 2 and 3 threads with bounded preemptions at function-entry (thorough: statement) granularity compared with solo results; operation sequences from non-initial states; separate free-running -race pass.",
         "cooperative scheduler exploring all schedules up to a preemption bound + per-statement snapshot monitor (race detector pass as supporting evidence)"),
 "C20": (A, "4.C20", "ALL struct shapes over 7 ID forms and 0..2 further fields from 15 Go types x 10 api tags x 4 json tags (full alphabet pairs in thorough: 2.5M shapes), built with reflect.StructOf, by value and by pointer: Check accepts => everything works and built type = independently predicted type; Check rejects => BuildType errors and Wrap panics.",
         "complete enumeration of struct shapes (run-time types), independent tag reader"),
 "C19": (B, "4.C19", "All histories of 19 SoftCollection operations to the stated depth vs an ordered-list model, observing Len/At/Resource/GetType/Get after every step.",
         "explicit-state BFS over operation histories of the real collection vs list model"),
}

NOT_YET = {}

def main():
    props = [json.loads(l)["id"] for l in open(os.path.join(V, "properties.jsonl"))]
    man = {
     "version": 1,
     "setup_cmd": "./setup.sh",
     "hooks": {
      "guard": "none: no hook is committed to /repo; instrumentation (map-range order control + yield points) is generated at check time from the current working tree by cmd/instrument and applied with go build -overlay",
      "enable": "go build -overlay <scratch>/full.json ./cmd/runner (done by ./check)",
      "baseline_off_cmd": "cd /repo && GOFLAGS=-mod=mod GOPROXY=off GOSUMDB=off GOTOOLCHAIN=local go test -vet=off -count=1 -json ./...",
      "source_commits": [],
      "add_only": True,
     },
     "engines": [
      {"name": A, "path": "mc/explore.go", "serves_properties": [k for k, v in CHECKS.items() if v[0] == A],
       "kind_free_text": "stateless DFS over the choice tree of a deterministic harness body; Full choices always expanded, environment choices (map-iteration order, scheduling) deviation-bounded; sharded over 16 processes; determinism re-checks"},
      {"name": B, "path": "mc/bfs.go", "serves_properties": [k for k, v in CHECKS.items() if v[0] == B],
       "kind_free_text": "breadth-first search; a state is the shortest history reaching it, successors are built by replaying on a fresh real object; de-duplication by canonical deep heap snapshot (mc/snap.go)"},
      {"name": C, "path": "mc/sched.go", "serves_properties": [k for k, v in CHECKS.items() if v[0] == C],
       "kind_free_text": "baton-passing scheduler over yield points inserted before every statement; snapshot monitor attributes shared-heap writes to statements"},
     ],
     "checks": [],
     "not_applicable": [],
     "notes": "Every check: ./check <id> quick|thorough instruments the CURRENT /repo working tree, builds the runner with -overlay, explores, writes evidence/<id>.json. known_findings.txt lists recorded defects (finding:) and repaired ones (fixed:).",
    }
    for pid in props:
        if pid in CHECKS:
            eng, ref, text, tech = CHECKS[pid]
            man["checks"].append({
             "property_id": pid,
             "quick_cmd": "./check %s quick" % pid,
             "thorough_cmd": "./check %s thorough" % pid,
             "evidence_file": "/verif/evidence/%s.json" % pid,
             "replay_cmd_template": "./check %s --replay {path}" % pid,
             "engine": eng,
             "level_claimed": {"category": "model_checking", "text": text, "design_ref": "DESIGN.md section " + ref},
             "level_note": "Trusted base: the Go toolchain, the mechanical instrumenter (its output passes the repository's own 101 tests under three map schedules), the harness's reference model. Universality is over the stated alphabets and bounds only; bounds completed are reported in the evidence.",
             "technique": "model checking: " + tech,
            })
        else:
            man["not_applicable"].append({"property_id": pid, "reason": NOT_YET.get(pid, "check not built yet at this commit (build order in DESIGN.md section 8); will be claimed once its harness exists")})
    json.dump(man, open(os.path.join(V, "MANIFEST.json"), "w"), indent=1)
    print("MANIFEST.json: %d checks, %d not_applicable" % (len(man["checks"]), len(man["not_applicable"])))

main()
