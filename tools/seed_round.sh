#!/usr/bin/env bash
# tools/seed_round.sh <round> <ids...>: verify the seeded changes of a round found in /tmp/wt<round>-<Cxx>/m{1,2}.diff
# and store them as <Cxx>-m<2*(round-1)+1> / m<2*(round-1)+2>
cd "$(dirname "$0")/.."
round="$1"; shift
for id in "$@"; do
  for sk in 1 2; do
    k=$(( 2*(round-1) + sk ))
    [ -f /tmp/wt$round-$id/m$sk.diff ] || { echo "$id m$k: (no patch delivered)"; continue; }
    SEED_SRC=/tmp/wt$round-$id SEED_SRCK=$sk tools/seed_verify.sh $id $k quick 2>&1 | grep "seed_verify\|^  signature" | tr '\n' ' ' | sed 's/seed_verify: //g; s/demo-on-clean rc=0 (want 0), suite-on-mutant rc=0 (want 0), demo-on-mutant rc=1 (want !=0)/valid/; s/signature=//g' | cut -c1-300; echo
  done
done
