#!/usr/bin/env bash
# re-verifies every stored seeded change and runs its property's check against it
cd "$(dirname "$0")/.."
tier="${1:-quick}"
for d in seeded/*/; do
  n=$(basename "$d"); id=${n%%-*}; k=${n##*-m}
  tools/seed_verify.sh "$id" "$k" "$tier" 2>&1 | grep "seed_verify" | tr '\n' ' ' | sed 's/seed_verify: //g; s/demo-on-clean rc=0 (want 0), suite-on-mutant rc=0 (want 0), demo-on-mutant rc=1 (want !=0)/valid/' | cut -c1-160; echo
done
