package props

import (
	"bytes"
	"fmt"
	"os"
	"os/exec"
	"reflect"
	"regexp"
	"sort"
	"strings"
	"sync"
	"sync/atomic"

	j "github.com/mfcochauxlaberge/jsonapi"

	"verif/mc"
)

// C12 — a built schema can be shared by concurrent requests.

var (
	c12A = TypeD{Name: "a", Attrs: []AttrD{{"x", kStr}, {"y", kInt}, {"p", kPInt}}, Rels: []RelD{{"r", true, "b", "back"}, {"rr", false, "b", ""}}}
	c12B = TypeD{Name: "b", Attrs: []AttrD{{"z", kStr}}, Rels: []RelD{{"back", false, "a", "r"}, {"s", true, "c", ""}}}
)

// c12Schema builds the shared schema: a struct-backed type, a soft type and a
// soft type whose Attrs/Rels maps are nil, in one of the 6 orders.
func c12Schema(order int) *j.Schema {
	tb := c12B.Type(true)
	// a hand-declared one-way relationship may leave FromType empty (legal)
	rs := tb.Rels["s"]
	rs.FromType = ""
	tb.Rels["s"] = rs
	types := []j.Type{c12A.Type(false), tb, {Name: "c"}}
	perm := mc.Perm(3, order)
	defer func() {}()
	s := &j.Schema{}
	for _, i := range perm {
		if err := s.AddType(types[i]); err != nil {
			panic(err)
		}
	}
	// a struct-backed type that declares nothing but its ID
	if err := s.AddType(TypeD{Name: "idonly"}.Type(false)); err != nil {
		panic(err)
	}
	// a fifth type: the slice of types now has spare capacity (len 5, cap 8), as schemas
	// grown by AddType usually do - an append to it writes into shared memory
	if err := s.AddType(j.Type{Name: "e", Attrs: map[string]j.Attr{"v": {Name: "v", Type: j.AttrTypeString}}}); err != nil {
		panic(err)
	}
	FixFromOne(s)
	if order%2 == 1 {
		// a schema assembled by hand from a list of types (no AddType call ever saw it)
		s = &j.Schema{Types: append(make([]j.Type, 0, 8), s.Types...)}
	}
	return s
}

// c12Coherent verifies once, on a twin, that the shared schema is coherent, so
// that the schema handed to the operations has never been touched by a query
// before. (Not in a package init: a change that breaks it must fail C12, not
// every check of the runner.)
var (
	c12CoherentOnce sync.Once
	c12Incoherent   string
)

func c12Coherent(x *mc.Exec) bool {
	c12CoherentOnce.Do(func() {
		if p := Try(func() {
			if errs := c12Schema(0).Check(); len(errs) > 0 {
				c12Incoherent = fmt.Sprint(errs)
			}
		}); p != "" {
			c12Incoherent = "building the shared schema panicked: " + p
		}
	})
	if c12Incoherent != "" {
		x.Fail("C12:shared-schema-not-buildable", "the shared schema of the harness cannot be built / is incoherent: %s", c12Incoherent)
		return false
	}
	return true
}

type c12Op struct {
	name string
	run  func(s *j.Schema) string // returns a canonical rendering of its result
}

func c12Ops() []c12Op {
	url := func(raw string) c12Op {
		return c12Op{"NewURLFromRaw(" + raw + ")", func(s *j.Schema) string {
			u, err := j.NewURLFromRaw(s, raw)
			if err != nil {
				return "error: " + err.Error()
			}
			return u.String() + fmt.Sprint(" include=", len(u.Params.Include), " ", u.Params.SortingRules)
		}}
	}
	unm := func(name, payload string) c12Op {
		return c12Op{"UnmarshalDocument(" + name + ")", func(s *j.Schema) string {
			d, err := j.UnmarshalDocument([]byte(payload), s)
			if err != nil {
				return "error: " + err.Error()
			}
			out := ""
			render := func(r j.Resource) { out += c18Read(r) + ";" }
			switch v := d.Data.(type) {
			case j.Resource:
				render(v)
			case j.Collection:
				for i := 0; i < v.Len(); i++ {
					render(v.At(i))
				}
			}
			for _, r := range d.Included {
				render(r)
			}
			return out
		}}
	}
	return []c12Op{
		url("/a/1?include=r.s&fields%5Ba%5D=x&sort=-y"),
		url("/a?filter=lbl&page%5Bsize%5D=2&include=rr,r"),
		url("/b/2/back?sort=x,-p"),
		unm("struct resource", `{"data":{"type":"a","id":"1","attributes":{"x":"v","y":3,"p":null},"relationships":{"r":{"data":{"type":"b","id":"b1"}},"rr":{"data":[{"type":"b","id":"b2"}]}}}}`),
		unm("soft collection + included", `{"data":[{"type":"b","id":"b1","attributes":{"z":"q"}},{"type":"c","id":"c1"}],"included":[{"type":"a","id":"9","attributes":{"y":1}}]}`),
		{"UnmarshalPartialResource(a)", func(s *j.Schema) string {
			r, err := j.UnmarshalPartialResource([]byte(`{"type":"a","id":"1","attributes":{"y":4},"relationships":{"rr":{"data":[]}}}`), s)
			if err != nil {
				return "error: " + err.Error()
			}
			return c18Read(r)
		}},
		{"UnmarshalPartialResource(c)", func(s *j.Schema) string {
			r, err := j.UnmarshalPartialResource([]byte(`{"type":"c","id":"1"}`), s)
			if err != nil {
				return "error: " + err.Error()
			}
			return c18Read(r)
		}},
		{"GetType(a).New()+Set", func(s *j.Schema) string {
			t := s.GetType("a")
			r := t.New()
			r.Set("id", "n1")
			r.Set("x", "set")
			r.Set("rr", []string{"q"})
			return c18Read(r)
		}},
		{"GetType(b).New()+Set", func(s *j.Schema) string {
			t := s.GetType("b")
			r := t.New()
			r.Set("id", "n2")
			r.Set("z", "set")
			r.Set("back", []string{"k"})
			return c18Read(r)
		}},
		{"GetType(idonly).New()+Set(id)", func(s *j.Schema) string {
			t := s.GetType("idonly")
			r := t.New()
			before := fmt.Sprint(r.Get("id"))
			r.Set("id", "mine")
			return before + "->" + fmt.Sprint(r.Get("id"))
		}},
		{"UnmarshalDocument(idonly)", func(s *j.Schema) string {
			d, err := j.UnmarshalDocument([]byte(`{"data":{"type":"idonly","id":"fromdoc"}}`), s)
			if err != nil {
				return "error: " + err.Error()
			}
			return c18Read(d.Data.(j.Resource))
		}},
		{"GetType(c).New()+Get", func(s *j.Schema) string {
			t := s.GetType("c")
			r := t.New()
			r.Set("id", "n3")
			return c18Read(r) + fmt.Sprint(len(r.Attrs()), len(r.Rels()))
		}},
		{"MarshalDocument(own document)", func(s *j.Schema) string {
			ta, tb := s.GetType("a"), s.GetType("b")
			r := ta.New()
			r.Set("id", "m1")
			r.Set("rr", []string{"b2", "b1"})
			i := tb.New()
			i.Set("id", "b1")
			u, err := j.NewURLFromRaw(s, "/a/m1?include=rr")
			if err != nil {
				return "error: " + err.Error()
			}
			doc := &j.Document{Data: r, RelData: map[string][]string{"a": {"rr", "r"}}}
			doc.Include(i)
			out, err := j.MarshalDocument(doc, u)
			return string(out) + fmt.Sprint(err)
		}},
		// a JSON filter tree (and/or nodes recurse through Filter.UnmarshalJSON)
		url("/a?filter=%7B%22o%22%3A%22and%22%2C%22v%22%3A%5B%7B%22f%22%3A%22x%22%2C%22o%22%3A%22%3D%22%2C%22v%22%3A%22a%22%7D%2C%7B%22o%22%3A%22or%22%2C%22v%22%3A%5B%7B%22f%22%3A%22y%22%2C%22o%22%3A%22%3E%22%2C%22v%22%3A1%7D%5D%7D%5D%7D"),
		// a handler's own "view" struct, not part of the schema, wrapped inside the request; in the
		// free-running pass every call uses a struct type the library has never seen before
		{"Wrap(view struct)+MarshalDocument", func(s *j.Schema) string {
			v := reflect.New(c12ViewType()).Elem()
			v.Field(0).SetString("v1")
			v.Field(1).SetString("title")
			r := j.Wrap(v.Addr().Interface())
			name := r.GetType().Name
			u := &j.URL{Fragments: []string{name, "v1"}, ResType: name, ResID: "v1",
				Params: &j.Params{Fields: map[string][]string{name: {"title"}}, RelData: map[string][]string{}, SortingRules: []string{}, Include: [][]j.Rel{}}}
			out, err := j.MarshalDocument(&j.Document{Data: r}, u)
			return strings.ReplaceAll(string(out), name, "views") + fmt.Sprint(err)
		}},
		// a collection well beyond any small-input fast path (one member ill-typed: the call must refuse)
		{"UnmarshalDocument(collection of 40)", func(s *j.Schema) string {
			var ms []string
			for i := 0; i < 40; i++ {
				ms = append(ms, fmt.Sprintf(`{"type":"a","id":"m%d","attributes":{"x":"v%d","y":%d}}`, i, i, i))
			}
			d, err := j.UnmarshalDocument([]byte(`{"data":[`+strings.Join(ms, ",")+`]}`), s)
			if err != nil {
				return "error: " + err.Error()
			}
			out := fmt.Sprint(d.Data.(j.Collection).Len(), ";")
			ms[3] = `{"type":"a","id":"bad","attributes":{"y":"not a number"}}`
			_, err = j.UnmarshalDocument([]byte(`{"data":[`+strings.Join(ms, ",")+`]}`), s)
			return out + fmt.Sprint(err != nil)
		}},
		// a request that sends back the very document it received (the marshaler writes the
		// self link into the document's own Links map)
		c12Echo("a", `{"data":{"type":"a","id":"1","attributes":{"x":"v"}},"meta":{"m":1}}`, "/a/1"),
		c12Echo("b", `{"data":{"type":"b","id":"2"},"links":{"next":"/n"}}`, "/b/2?sort=x"),
		// new resources created through the schema's own list of types rather than a GetType copy
		{"Types[i].New()+Set (soft types, through the schema's own elements)", func(s *j.Schema) string {
			out := ""
			for i := range s.Types {
				if n := s.Types[i].Name; n == "b" || n == "c" || n == "e" {
					r := s.Types[i].New()
					r.Set("id", "viaelem")
					out += c18Read(r) + ";"
				}
			}
			return out
		}},
		{"HasType", func(s *j.Schema) string { return fmt.Sprint(s.HasType("a"), s.HasType("c"), s.HasType("nope")) }},
		{"GetType", func(s *j.Schema) string {
			t, n := s.GetType("b"), s.GetType("nope")
			return renderType(t) + renderType(n)
		}},
		{"Check", func(s *j.Schema) string { return fmt.Sprint(s.Check()) }},
		{"Rels", func(s *j.Schema) string { return showRels(s.Rels()) }},
	}
}

func c12Echo(name, payload, raw string) c12Op {
	return c12Op{"Unmarshal+MarshalDocument(echo " + name + ")", func(s *j.Schema) string {
		d, err := j.UnmarshalDocument([]byte(payload), s)
		if err != nil {
			return "error: " + err.Error()
		}
		u, err := j.NewURLFromRaw(s, raw)
		if err != nil {
			return "error: " + err.Error()
		}
		out, err := j.MarshalDocument(d, u)
		return string(out) + fmt.Sprint(err, len(d.Links), len(d.Meta), len(d.RelData))
	}}
}

var (
	c12FreshTypes bool
	c12TypeSeq    atomic.Int64
	c12FixedView  = c12MakeView(0)
)

func c12MakeView(n int64) reflect.Type {
	return reflect.StructOf([]reflect.StructField{
		{Name: "ID", Type: reflect.TypeOf(""), Tag: reflect.StructTag(fmt.Sprintf(`json:"id" api:"views%d"`, n))},
		{Name: "Title", Type: reflect.TypeOf(""), Tag: `json:"title" api:"attr"`},
	})
}

func c12ViewType() reflect.Type {
	if c12FreshTypes {
		return c12MakeView(c12TypeSeq.Add(1))
	}
	return c12FixedView
}

// c12Shared renders the shared state: deep snapshot of the schema (all fields,
// private ones included) ...
func c12Shared(s *j.Schema) uint64 { return mc.Hash(mc.SnapSpare(s)) }

// ... complemented functionally for state reachable only through closures.
func c12Functional(s *j.Schema) string {
	out := ""
	for i := range s.Types {
		t := s.Types[i]
		r := t.New()
		out += mc.Snap(r.Get("id"), SortedKeys(r.Attrs()), SortedKeys(r.Rels()), r.GetType().Name)
		for _, n := range SortedKeys(r.Attrs()) {
			out += ShowVal(r.Get(n))
		}
	}
	return out
}

// ---- (1) solo runs under the snapshot monitor, statement granularity --------

func c12Solo(x *mc.Exec) {
	if !c12Coherent(x) {
		return
	}
	ops := c12Ops()
	oi := x.Choose(len(ops), "op")
	order := x.Choose(6, "type order")
	s := c12Schema(order)
	before, fbefore := c12Shared(s), c12Functional(s)
	last, lastSite := before, -1
	writes := map[string]bool{}
	yields := 0
	siteFn := func(site int) string {
		if site >= 0 && site < len(j.McSites) {
			return fmt.Sprintf("%s (%s:%d)", j.McSites[site].Func, j.McSites[site].File, j.McSites[site].Line)
		}
		return "start/end of the operation"
	}
	j.McInstall(&j.McHooks{Yield: func(site int) {
		yields++
		if h := c12Shared(s); h != last {
			writes[fmt.Sprintf("between the statements at %s and %s", siteFn(lastSite), siteFn(site))] = true
			last = h
		}
		lastSite = site
	}})
	var res string
	p := Try(func() { res = ops[oi].run(s) })
	j.McInstall(nil)
	x.R.Add("transitions", int64(yields))
	x.R.Add("monitored_statements", int64(yields))
	if h := c12Shared(s); h != last {
		writes[fmt.Sprintf("between the statements at %s and %s", siteFn(lastSite), siteFn(-1))] = true
	}
	x.Observe(oi, order, res, p)
	x.Render(fmt.Sprintf("%s on schema order %d", ops[oi].name, order))
	x.R.Sample("solo", fmt.Sprintf("%s on schema order %d: %d statements monitored", ops[oi].name, order, yields))
	x.R.Mark("nontrivial", mc.Hash(oi, order))
	if p != "" {
		x.Fail("C12:solo:panic:"+opKind(ops[oi].name), "%s panicked: %s", ops[oi].name, p)
		return
	}
	if len(writes) > 0 {
		x.Fail("C12:shared-write:"+opKind(ops[oi].name), "%s writes to the shared schema (its deep snapshot changes %s): a second goroutine running any operation races with it", ops[oi].name, strings.Join(SortedKeys(writes), "; "))
	}
	if c12Shared(s) != before {
		x.Fail("C12:schema-changed:"+opKind(ops[oi].name), "%s left the shared schema changed", ops[oi].name)
	}
	if c12Functional(s) != fbefore {
		x.Fail("C12:new-resources-changed:"+opKind(ops[oi].name), "%s changed what Type.New() returns", ops[oi].name)
	}
}

func opKind(name string) string {
	if i := strings.Index(name, "("); i > 0 {
		return name[:i]
	}
	return name
}

// ---- (2) all schedules of 2 / 3 threads --------------------------------------

var (
	c12EntryOnce sync.Once
	c12Entry     map[int]bool
)

// entry sites: the first statement of every function
func c12EntrySites() map[int]bool {
	c12EntryOnce.Do(func() {
		best := map[string]int{}
		for i, s := range j.McSites {
			if s.Kind != "yield" {
				continue
			}
			k := s.File + ":" + s.Func
			if b, ok := best[k]; !ok || s.Line < j.McSites[b].Line {
				best[k] = i
			}
		}
		c12Entry = map[int]bool{}
		for _, i := range best {
			c12Entry[i] = true
		}
	})
	return c12Entry
}

func c12Interleave(x *mc.Exec, opIdx []int, order int, statementGranularity bool) {
	if !c12Coherent(x) {
		return
	}
	ops := c12Ops()
	for _, oi := range opIdx {
		if strings.HasPrefix(ops[oi].name, "UnmarshalDocument(collection of 40)") {
			// thousands of scheduling points: this operation is run alone under the statement
			// monitor, in sequences and in the free-running pass, not under the scheduler
			return
		}
	}
	s := c12Schema(order)
	solo := make([]string, len(opIdx))
	for i, oi := range opIdx {
		solo[i] = c12SoloResult(oi, order)
	}
	before, fbefore := c12Shared(s), c12Functional(s)
	results := make([]string, len(opIdx))
	sch := &mc.Sched{X: x}
	if !statementGranularity {
		entry := c12EntrySites()
		sch.Point = func(site int) bool { return entry[site] }
	}
	wrote := ""
	for i, oi := range opIdx {
		i, oi := i, oi
		sch.Go(func() { results[i] = ops[oi].run(s) })
	}
	j.McInstall(&j.McHooks{Yield: sch.Yield})
	steps := sch.Run()
	j.McInstall(nil)
	x.R.Add("transitions", int64(steps))
	x.R.Add("scheduled_steps", int64(steps))
	names := []string{}
	for _, oi := range opIdx {
		names = append(names, ops[oi].name)
	}
	desc := strings.Join(names, " || ")
	x.Render(fmt.Sprintf("%s on schema order %d, schedule %v", desc, order, x.Choices()))
	if sch.Switches > 0 {
		x.R.Mark("nontrivial", mc.Hash(x.Choices()))
	}
	x.R.Mark("states", mc.Hash(desc, order, fmt.Sprint(x.Choices())))
	x.Observe(desc, fmt.Sprint(results))
	for _, p := range sch.Panics {
		if strings.HasPrefix(p, "DIVERGED") {
			panic(p)
		}
		x.Fail("C12:interleaved:panic", "%s: %s", desc, p)
	}
	for i := range results {
		if results[i] != solo[i] {
			x.Fail("C12:result-differs-from-solo:"+opKind(names[i]), "%s: under schedule %v thread %d (%s) returned\n  %.300s\nrunning alone it returns\n  %.300s", desc, x.Choices(), i, names[i], results[i], solo[i])
		}
	}
	if wrote != "" || c12Shared(s) != before {
		x.Fail("C12:interleaved:schema-changed", "%s: the shared schema changed (first seen in %s)", desc, wrote)
	}
	if c12Functional(s) != fbefore {
		x.Fail("C12:interleaved:new-resources-changed", "%s: Type.New() returns something else afterwards", desc)
	}
	x.R.Sample(fmt.Sprintf("schedule-%d-threads", len(opIdx)), fmt.Sprintf("%s: %d scheduling points, %d switches", desc, steps, sch.Switches))
}

var c12SoloCache = map[[2]int]string{}

func c12SoloResult(oi, order int) string {
	k := [2]int{oi, order}
	if r, ok := c12SoloCache[k]; ok {
		return r
	}
	r := c12Ops()[oi].run(c12Schema(order))
	c12SoloCache[k] = r
	return r
}

// c12Op returns the index of the operation whose name starts with prefix.
func c12OpIdx(prefix string) int {
	for i, o := range c12Ops() {
		if strings.HasPrefix(o.name, prefix) {
			return i
		}
	}
	panic("no operation " + prefix)
}

// representative ops: URL parse, unmarshal, New+Set (struct), New+Set (ID-only struct), marshal, Check, Rels
var c12Rep = []int{c12OpIdx("NewURLFromRaw(/a/1"), c12OpIdx("UnmarshalDocument(struct"), c12OpIdx("GetType(a)"), c12OpIdx("GetType(idonly)"),
	c12OpIdx("MarshalDocument"), c12OpIdx("Check"), c12OpIdx("Rels"), c12OpIdx("Unmarshal+MarshalDocument(echo b")}

func c12Pairs(x *mc.Exec) {
	n := len(c12Ops())
	var a, b int
	order := 0
	if Thorough() {
		a = x.Choose(n, "op of thread 0")
		b = x.Choose(n, "op of thread 1")
		order = x.Choose(2, "type order") * 3
	} else {
		// quick: every operation against every schema query and every
		// representative operation
		a = x.Choose(n, "op of thread 0")
		b = c12Rep[x.Choose(len(c12Rep), "op of thread 1")]
	}
	c12Interleave(x, []int{a, b}, order, false)
}

func c12Triples(x *mc.Exec) {
	rep := c12Rep
	if !Thorough() {
		rep = []int{c12OpIdx("NewURLFromRaw(/a/1"), c12OpIdx("GetType(idonly)"), c12OpIdx("Rels")}
	}
	a := rep[x.Choose(len(rep), "op of thread 0")]
	b := rep[x.Choose(len(rep), "op of thread 1")]
	c := rep[x.Choose(len(rep), "op of thread 2")]
	c12Interleave(x, []int{a, b, c}, 0, false)
}

// statement granularity for the pairs in which a schema query runs against a
// parser or (un)marshaler (thorough tier)
func c12Fine(x *mc.Exec) {
	rels, chk, url, newA, has, get, unm, newC, part, idonly := c12OpIdx("Rels"), c12OpIdx("Check"), c12OpIdx("NewURLFromRaw(/a/1"), c12OpIdx("GetType(a)"), c12OpIdx("HasType"), c12OpIdx("GetType"+""), c12OpIdx("UnmarshalDocument(struct"), c12OpIdx("GetType(c)"), c12OpIdx("UnmarshalPartialResource(c)"), c12OpIdx("GetType(idonly)")
	_ = get
	pairs := [][2]int{{rels, rels}, {rels, chk}, {chk, chk}, {rels, url}, {rels, newA}, {chk, newA}, {has, rels}, {c12OpIdx("GetType"), rels}, {newA, unm}, {newC, part}, {idonly, idonly}, {idonly, c12OpIdx("UnmarshalDocument(idonly")}}
	p := pairs[x.Choose(len(pairs), "pair")]
	c12Interleave(x, []int{p[0], p[1]}, 0, true)
}

// ---- (3) op sequences from non-initial states --------------------------------

func c12Sequences(x *mc.Exec) {
	if !c12Coherent(x) {
		return
	}
	ops := c12Ops()
	a := x.Choose(len(ops), "first op")
	b := x.Choose(len(ops), "second op")
	order := x.Choose(2, "type order") * 3
	s := c12Schema(order)
	before, fbefore := c12Shared(s), c12Functional(s)
	soloB := ops[b].run(c12Schema(order))
	var rb string
	p := Try(func() { ops[a].run(s); rb = ops[b].run(s); ops[a].run(s) })
	x.R.Add("transitions", 3)
	x.R.Mark("nontrivial", mc.Hash(a, b, order))
	if p != "" {
		x.Fail("C12:sequence:panic", "%s then %s panicked: %s", ops[a].name, ops[b].name, p)
		return
	}
	if c12Shared(s) != before || c12Functional(s) != fbefore {
		x.Fail("C12:sequence:schema-changed:"+opKind(ops[a].name)+"+"+opKind(ops[b].name), "after %s, %s, %s the shared schema (or what Type.New returns) differs from the initial one", ops[a].name, ops[b].name, ops[a].name)
	}
	if rb != soloB {
		x.Fail("C12:sequence:result-depends-on-history:"+opKind(ops[b].name), "%s returns %.200s after %s but %.200s on a fresh schema", ops[b].name, rb, ops[a].name, soloB)
	}
}

// ---- (4) separate free-running -race pass -----------------------------------

// C12RaceWorker is executed in the -race build (original sources): real
// goroutines, no scheduler. Reports of the race detector go to stderr.
func C12RaceWorker() {
	c12FreshTypes = true
	ops := c12Ops()
	for _, order := range []int{0, 3, 5} {
		for _, g := range []int{2, 4, 16} {
			for a := 0; a < len(ops); a++ {
				// a schema nobody has used yet for every group: what an operation does lazily on
				// first use (fill a cache, materialise a zero value) is done by several goroutines at once
				s := c12Schema(order)
				var wg sync.WaitGroup
				start := make(chan struct{})
				for k := 0; k < g; k++ {
					wg.Add(1)
					op := ops[(a+k*7)%len(ops)]
					if k%2 == 0 {
						op = ops[a]
					}
					go func() {
						defer wg.Done()
						<-start
						for rep := 0; rep < 3; rep++ {
							func() {
								defer func() { _ = recover() }()
								op.run(s)
							}()
						}
					}()
				}
				close(start)
				wg.Wait()
			}
		}
	}
	fmt.Println("race-worker: done")
}

var raceFrame = regexp.MustCompile(`github\.com/mfcochauxlaberge/jsonapi\.(\S+?)\(\)`)

func c12Race(c *Ctx) {
	bin, build := os.Getenv("VERIF_RACE_BIN"), os.Getenv("VERIF_RACE_BUILD")
	if bin == "" {
		c.R.Note("race pass skipped: VERIF_RACE_BIN not set")
		return
	}
	if _, err := os.Stat(bin); err != nil {
		cmd := exec.Command("sh", "-c", build)
		var out bytes.Buffer
		cmd.Stdout, cmd.Stderr = &out, &out
		if err := cmd.Run(); err != nil {
			c.R.InfraError("cannot build the -race binary: %v\n%s", err, out.String())
			return
		}
	}
	cmd := exec.Command(bin, "C12", "--race-worker")
	cmd.Env = append(os.Environ(), "GORACE=halt_on_error=0 exitcode=0", "GOMAXPROCS=16")
	var out bytes.Buffer
	cmd.Stdout, cmd.Stderr = &out, &out
	err := cmd.Run()
	text := out.String()
	c.R.Add("race_pass_runs", 1)
	if !strings.Contains(text, "race-worker: done") {
		if strings.Contains(text, "fatal error: concurrent map") {
			c.R.Violate(mc.Violation{Sig: "C12:race:concurrent-map-fatal", Msg: "free-running goroutines crashed with 'fatal error: concurrent map ...':\n" + firstLines(text, 30), Harness: "C12/race"})
			return
		}
		c.R.InfraError("race worker did not finish: %v\n%s", err, firstLines(text, 40))
		return
	}
	blocks := strings.Split(text, "WARNING: DATA RACE")
	seen := map[string]bool{}
	for _, b := range blocks[1:] {
		fns := raceFrame.FindAllStringSubmatch(b, -1)
		key := "unknown"
		if len(fns) > 0 {
			key = fns[0][1]
		}
		if seen[key] {
			continue
		}
		seen[key] = true
		c.R.Violate(mc.Violation{Sig: "C12:race:" + key, Msg: "the race detector reports a data race in " + key + " (free-running goroutines sharing one schema):\n" + firstLines(b, 25), Harness: "C12/race"})
	}
	c.R.Add("race_reports", int64(len(blocks)-1))
	c.R.Note(fmt.Sprintf("free-running -race pass: 3 schema orders x {2,4,16} goroutines x %d operations, %d race reports", len(c12Ops()), len(blocks)-1))
}

func firstLines(s string, n int) string {
	l := strings.Split(s, "\n")
	if len(l) > n {
		l = l[:n]
	}
	return strings.Join(l, "\n")
}

func init() {
	_ = reflect.DeepEqual
	_ = sort.Strings
	Register(&Prop{
		ID: "C12",
		Rule: "Engine C (cooperative scheduler over the yield points the instrumenter puts before every statement) + snapshot monitor. Shared schema: a struct-backed type, a soft type with a two-way relationship to it, and a soft type with nil maps, in every order of the three types, built through AddType or assembled by hand from a list of types. 21 operations with private inputs (a document holding a collection of 40, new resources through the schema's own Types elements, two requests that echo the document they received, 4 URL parses incl. a JSON and/or filter tree, wrapping and marshaling a handler's own view struct that is not in the schema - in the free-running pass a struct type never seen before on every call -, 2 document unmarshals, 2 partial unmarshals, Type.New()+Set for each type, marshaling an own document, HasType, GetType, Check, Rels). (1) every operation x 6 type orders run alone with the deep snapshot of the schema recomputed after EVERY statement (a change = a shared write, attributed to the function); (2) every operation against 6 representative operations on 2 threads (thorough: every ordered pair) and every triple of 3 (thorough 6) representative operations on 3 threads: ALL schedules with scheduling points at function entries and <= 1 preemption (thorough: <= 2), each thread's result compared with its solo result, schema snapshot unchanged; thorough adds statement-granularity schedules for 10 query-vs-parser pairs; (3) every ordered pair of operations run in sequence from the state the first one leaves (state count must stay 1); (4) a separate free-running pass of the same operation bodies under the Go race detector (2, 4, 16 goroutines, every group on a schema nobody has used yet). By the lemma in DESIGN.md 2.4, no write step in any solo run => no interleaving of any number of such threads contains one. Non-trivial = schedule with at least one context switch / monitored solo run",
		Assumptions: []string{"an unsynchronised write that stores an unchanged value is invisible to the snapshot monitor; it is left to the permuted type orders and to the free-running -race pass (supporting evidence)", "memory-model effects below statement granularity are not modelled"},
		Harnesses: []Harness{
			{Name: "C12/solo-monitor", Body: c12Solo},
			{Name: "C12/pairs", Body: c12Pairs, Dev: func() int {
				if Thorough() {
					return 2
				}
				return 1
			}},
			{Name: "C12/triples", Body: c12Triples, Dev: func() int { return 1 }},
			{Name: "C12/fine", Body: c12Fine, OnlyTier: "thorough", Dev: func() int { return 1 }, ShardDepth: 3},
			{Name: "C12/sequences", Body: c12Sequences},
		},
		Race: c12Race,
	})
}
