package props

import (
	"fmt"
	"reflect"
	"strings"
	"time"

	j "github.com/mfcochauxlaberge/jsonapi"

	"verif/mc"
)

// C17 — resources read back what was written, whichever implementation.

func c17TypeD(k Kind) TypeD {
	// "ks" and "oneself" are declared BEFORE the fields whose names are their prefixes
	// the struct realisation declares its ID first, after the attributes or last, depending on the kind
	return TypeD{Name: "t", Attrs: []AttrD{{"ks", Kind{j.AttrTypeString, false}}, {"k", k}, {"s", Kind{j.AttrTypeString, false}}},
		Rels: []RelD{{"oneself", true, "u", ""}, {"one", true, "u", ""}, {"many", false, "u", ""}}, IDPos: (k.Type + map[bool]int{false: 0, true: 1}[k.Nullable]) % 3}
}

type c17Op struct {
	field string
	val   func() any // fresh value per application
	show  string
}

// c17Base: three values of the kind (fresh on every call); for times one in UTC and two in
// other zones, since what is read back is the value set, zone included
func c17Base(k Kind) []any {
	if k.Type == j.AttrTypeTime {
		return []any{TimeAlph[1], TimeAlph[4], TimeAlph[5]}
	}
	return BaseValues(k.Type, 3)
}

func c17Ops(k Kind) []c17Op {
	var ops []c17Op
	base := c17Base(k)
	for i := range base {
		i := i
		if k.Nullable {
			ops = append(ops, c17Op{"k", func() any { return Ptr(c17Base(k)[i]) }, "&" + ShowVal(base[i])})
		} else {
			ops = append(ops, c17Op{"k", func() any { return c17Base(k)[i] }, ShowVal(base[i])})
		}
	}
	if k.Type == j.AttrTypeBytes && !k.Nullable {
		// a nil byte string is a well-typed value of the kind: it reads back as an empty one
		ops = append(ops, c17Op{"k", func() any { return []byte(nil) }, "nil byte string"})
	}
	if k.Nullable {
		ops = append(ops,
			c17Op{"k", func() any { return reflect.Zero(k.GoType()).Interface() }, "typed nil"},
			c17Op{"k", func() any { return nil }, "untyped nil"})
	}
	ops = append(ops,
		c17Op{"s", func() any { return "a" }, `"a"`},
		c17Op{"s", func() any { return "" }, `""`},
		c17Op{"one", func() any { return "x" }, `"x"`},
		c17Op{"one", func() any { return "" }, `""`},
		c17Op{"many", func() any { return []string{"b", "a"} }, "[b a]"},
		c17Op{"many", func() any { return []string{"b", "a", "b"} }, "[b a b]"},
		c17Op{"many", func() any { return []string{} }, "[]"},
		c17Op{"id", func() any { return "i1" }, `"i1"`},
		c17Op{"id", func() any { return "" }, `""`},
		c17Op{"", nil, "read everything"},
	)
	return ops
}

type c17Sys struct {
	k     Kind
	d     TypeD
	soft  j.Resource
	wrap  j.Resource
	model map[string]any
	ops   []c17Op
	// the value last handed to Set, per implementation and field
	cur   [2]map[string]any
	last  string
	eager bool
}

// c17Scribble overwrites, in place, a value the caller handed to Set earlier
// and has since replaced: the caller owns it again.
func c17Scribble(v any) {
	switch w := v.(type) {
	case []byte:
		for i := range w {
			w[i] ^= 0xA5
		}
		return
	case []string:
		for i := range w {
			w[i] += "~scribbled"
		}
		return
	}
	rv := reflect.ValueOf(v)
	if !rv.IsValid() || rv.Kind() != reflect.Ptr || rv.IsNil() {
		return
	}
	e := rv.Elem()
	switch e.Kind() {
	case reflect.String:
		e.SetString(e.String() + "~scribbled")
	case reflect.Bool:
		e.SetBool(!e.Bool())
	case reflect.Int, reflect.Int8, reflect.Int16, reflect.Int32, reflect.Int64:
		e.SetInt(e.Int() ^ 0x55)
	case reflect.Uint, reflect.Uint8, reflect.Uint16, reflect.Uint32, reflect.Uint64:
		e.SetUint(e.Uint() ^ 0x55)
	case reflect.Slice:
		e.Set(reflect.ValueOf([]byte{9, 9, 9}))
	case reflect.Struct:
		if t, ok := e.Interface().(time.Time); ok {
			e.Set(reflect.ValueOf(t.Add(12345 * time.Hour)))
		}
	}
}

func c17New(k Kind) *c17Sys {
	d := c17TypeD(k)
	y := &c17Sys{k: k, d: d, soft: d.NewRes(true), wrap: d.NewRes(false), ops: c17Ops(k)}
	var zero any
	if k.Nullable {
		zero = nil
	} else {
		zero = reflect.Zero(k.GoType()).Interface()
	}
	y.model = map[string]any{"k": zero, "s": "", "one": "", "many": []string{}, "id": ""}
	return y
}

func (y *c17Sys) Key() string {
	return mc.Snap(y.soft, y.wrap, fmt.Sprint(ShowVal(y.model["k"]), y.model["s"], y.model["one"], y.model["many"], y.model["id"]))
}

// c17Observe compares every observable of one implementation with the model.
func c17Observe(impl string, k Kind, r j.Resource, model map[string]any, d TypeD) (what, msg string) {
	if p := Try(func() {
		if n := r.GetType().Name; n != d.Name {
			what, msg = "type-name", fmt.Sprintf("%s: GetType().Name = %q", impl, n)
			return
		}
		if got, want := SortedKeys(r.Attrs()), []string{"k", "ks", "s"}; !reflect.DeepEqual(got, want) {
			what, msg = "attrs", fmt.Sprintf("%s: Attrs() = %v", impl, got)
			return
		}
		if got, want := SortedKeys(r.Rels()), []string{"many", "one", "oneself"}; !reflect.DeepEqual(got, want) {
			what, msg = "rels", fmt.Sprintf("%s: Rels() = %v", impl, got)
			return
		}
		if a := r.Attrs()["k"]; a.Name != "k" || a.Type != k.Type || a.Nullable != k.Nullable {
			what, msg = "attr-def", fmt.Sprintf("%s: attribute k defined as %+v", impl, a)
			return
		}
		if g := r.Get("k"); !SameAttrValue(g, model["k"]) || (!IsNilVal(g) && reflect.TypeOf(g) != k.GoType()) || (!IsNilVal(g) && c17ZoneDiffers(g, model["k"])) {
			what, msg = "get-attr", fmt.Sprintf("%s: Get(k) = %s, last value set (or zero) is %s", impl, ShowVal(g), ShowVal(model["k"]))
			return
		}
		if g, ok := r.Get("s").(string); !ok || g != model["s"].(string) {
			what, msg = "get-attr-s", fmt.Sprintf("%s: Get(s) = %v, want %q", impl, r.Get("s"), model["s"])
			return
		}
		// never set: a Set of "k" / "one" must not land in the fields they are a prefix of
		if g, ok := r.Get("ks").(string); !ok || g != "" {
			what, msg = "get-untouched-attr", fmt.Sprintf("%s: Get(ks) = %v, never set", impl, r.Get("ks"))
			return
		}
		if g, ok := r.Get("oneself").(string); !ok || g != "" {
			what, msg = "get-untouched-rel", fmt.Sprintf("%s: Get(oneself) = %v, never set", impl, r.Get("oneself"))
			return
		}
		if g, ok := r.Get("one").(string); !ok || g != model["one"].(string) {
			what, msg = "get-to-one", fmt.Sprintf("%s: Get(one) = %v, want %q", impl, r.Get("one"), model["one"])
			return
		}
		g, ok := r.Get("many").([]string)
		w := model["many"].([]string)
		if !ok || len(g) != len(w) || (len(g) > 0 && !reflect.DeepEqual(g, w)) {
			what, msg = "get-to-many", fmt.Sprintf("%s: Get(many) = %v, want %v", impl, r.Get("many"), w)
			return
		}
		if g, ok := r.Get("id").(string); !ok || g != model["id"].(string) {
			what, msg = "get-id", fmt.Sprintf("%s: Get(id) = %v, want %q", impl, r.Get("id"), model["id"])
		}
	}); p != "" {
		return "observe-panic", fmt.Sprintf("%s: reading the resource panicked: %s", impl, p)
	}
	return
}

func (y *c17Sys) Apply(opi int) (fails []mc.Violation, fatal bool) {
	o := y.ops[opi]
	if o.field == "" {
		// "read everything": every observable of both implementations, result ignored here
		c17Observe("soft", y.k, y.soft, y.model, y.d)
		c17Observe("wrap", y.k, y.wrap, y.model, y.d)
		y.last = "read everything"
		return nil, false
	}
	desc := fmt.Sprintf("Set(%q, %s) on kind %s", o.field, o.show, y.k)
	fail := func(what, msg string) {
		fails = append(fails, mc.Violation{Sig: fmt.Sprintf("C17:set:%s:%s", y.k, what), Msg: desc + ": " + msg})
	}
	for _, im := range []struct {
		name string
		r    j.Resource
	}{{"soft", y.soft}, {"wrap", y.wrap}} {
		given := o.val()
		if p := Try(func() { im.r.Set(o.field, given) }); p != "" {
			fail(im.name+"-set-panic", im.name+": Set panicked: "+p)
			fatal = true
		}
		k := 0
		if im.name == "wrap" {
			k = 1
		}
		if y.cur[k] == nil {
			y.cur[k] = map[string]any{}
		}
		// "the value most recently set": what was set before is the caller's again
		c17Scribble(y.cur[k][o.field])
		y.cur[k][o.field] = given
	}
	if fatal {
		return
	}
	v := o.val()
	if o.field == "k" && IsNilVal(v) {
		v = nil
	}
	y.model[o.field] = v
	y.last = desc
	if y.eager {
		// second search: everything is read after every Set
		f, _ := y.final()
		fails = append(fails, f...)
	}
	return
}

// Final: both implementations are read once, after the last Set of the history
// (reading is an operation of its own, so histories with reads between the
// Sets are explored too).
func (y *c17Sys) Final() (fails []mc.Violation, fatal bool) {
	if y.eager {
		return nil, false
	}
	return y.final()
}

func (y *c17Sys) final() (fails []mc.Violation, fatal bool) {
	for _, im := range []struct {
		name string
		r    j.Resource
	}{{"soft", y.soft}, {"wrap", y.wrap}} {
		if what, msg := c17Observe(im.name, y.k, im.r, y.model, y.d); what != "" {
			fails = append(fails, mc.Violation{Sig: fmt.Sprintf("C17:set:%s:%s", y.k, im.name+"-"+what), Msg: y.last + ": " + msg})
		}
	}
	return
}

var c17Eager bool

func c17BFS(c *Ctx, k Kind) *mc.BFS {
	depth := 4
	if Thorough() {
		depth = 8
	}
	ops := c17Ops(k)
	return &mc.BFS{
		Name: map[bool]string{false: "C17/set-histories", true: "C17/set-histories-read-after-every-step"}[c17Eager], NOps: len(ops), MaxDepth: depth, Workers: c.Workers, R: c.R,
		OpName: func(i int) string { return fmt.Sprintf("[%s] Set(%q, %s)", k, ops[i].field, ops[i].show) },
		New:    func(eager bool) func() mc.System {
			return func() mc.System { y := c17New(k); y.eager = eager; return y }
		}(c17Eager),
	}
}

// c17Key is an ID type a program may declare: a named string with its own String method.
type c17Key string

func (k c17Key) String() string { return "key/" + string(k) }

// c17NamedID: a wrapped struct whose ID field is of a named string type that prints differently:
// the id read back is the id written, the fresh id is empty, and it equals its soft twin.
func c17NamedID(x *mc.Exec) {
	st := reflect.StructOf([]reflect.StructField{
		{Name: "ID", Type: reflect.TypeOf(c17Key("")), Tag: `json:"id" api:"t"`},
		{Name: "S", Type: reflect.TypeOf(""), Tag: `json:"s" api:"attr"`},
	})
	ids := []string{"abc", "", "key/abc", " x "}
	var w *j.Wrapper
	if p := Try(func() { w = j.Wrap(reflect.New(st).Interface()) }); p != "" {
		return // such a struct is refused: nothing to read back
	}
	typ := w.GetType()
	soft := &j.SoftResource{Type: &typ}
	desc := "fresh"
	check := func(want string) {
		var got any
		var eq bool
		p := Try(func() {
			got = w.Get("id")
			eq = j.EqualStrict(soft, w) && j.EqualStrict(w, soft)
		})
		x.R.Add("transitions", 2)
		if p != "" || got != want {
			x.Fail("C17:named-id:get-id", "wrapped struct with an ID of a named string type, after [%s]: Get(id) = %v (panic %q), want %q", desc, got, p, want)
		} else if !eq {
			x.Fail("C17:named-id:equal", "wrapped struct with an ID of a named string type, after [%s]: not EqualStrict to a soft resource given the same calls", desc)
		}
	}
	check("")
	for i := 0; i < 2; i++ {
		id := ids[x.Choose(len(ids), "id")]
		desc += fmt.Sprintf("; Set(id, %q)", id)
		if p := Try(func() { w.Set("id", id); soft.Set("id", id) }); p != "" {
			x.Fail("C17:named-id:set-panic", "after [%s]: Set panicked: %s", desc, p)
			return
		}
		check(id)
	}
	x.Render(desc)
	x.R.Mark("nontrivial", mc.Hash(desc))
}

// fresh resources: Type.New, Wrapper.New, SoftResource.New
func c17Fresh(x *mc.Exec) {
	kinds := AllKinds()
	k := kinds[x.Choose(len(kinds), "kind")]
	how := x.Choose(5, "constructor")
	d := c17TypeD(k)
	names := []string{"soft Type.New", "struct Type.New", "SoftResource.New", "Wrapper.New", "Wrapper.New after Set"}
	var r j.Resource
	p := Try(func() {
		switch how {
		case 0:
			t := d.SoftType()
			r = t.New()
		case 1:
			t := d.StructBuiltType()
			r = t.New()
		case 2:
			src := d.NewRes(true)
			src.Set("s", "zzz")
			src.Set("many", []string{"q"})
			r = src.(*j.SoftResource).New()
		case 3:
			r = d.NewRes(false).(*j.Wrapper).New()
		case 4:
			src := d.NewRes(false)
			src.Set("s", "zzz")
			src.Set("id", "i9")
			src.Set("many", []string{"q"})
			r = src.(*j.Wrapper).New()
		}
	})
	x.R.Add("transitions", 1)
	x.R.Mark("nontrivial", mc.Hash(k.String(), how))
	x.Render(fmt.Sprintf("%s of kind %s", names[how], k))
	if p != "" {
		x.Fail(fmt.Sprintf("C17:fresh:%d:panic", how), "%s (kind %s) panicked: %s", names[how], k, p)
		return
	}
	var zero any
	if !k.Nullable {
		zero = reflect.Zero(k.GoType()).Interface()
	}
	model := map[string]any{"k": zero, "s": "", "one": "", "many": []string{}, "id": ""}
	if what, msg := c17Observe(names[how], k, r, model, d); what != "" {
		x.Fail(fmt.Sprintf("C17:fresh:%d:%s", how, what), "fresh resource: %s", msg)
	}
}

// ---- equality laws -----------------------------------------------------------

type c17Variant struct {
	name string
	mk   func(soft bool) j.Resource
}

func c17Pool() []c17Variant {
	str, pstr, pint := Kind{j.AttrTypeString, false}, Kind{j.AttrTypeString, true}, Kind{j.AttrTypeInt, true}
	pbytes := Kind{j.AttrTypeBytes, true}
	base := func() TypeD {
		return TypeD{Name: "t", Attrs: []AttrD{{"k", str}, {"n", pint}, {"pb", pbytes}, {"w", Kind{j.AttrTypeTime, false}}, {"pw", Kind{j.AttrTypeTime, true}}}, Rels: []RelD{{"one", true, "u", ""}, {"many", false, "u", ""}}}
	}
	fill := func(r j.Resource, kname string) j.Resource {
		r.Set("id", "i1")
		r.Set(kname, "v")
		return r
	}
	v := func(name string, d func() TypeD, post func(r j.Resource)) c17Variant {
		return c17Variant{name, func(soft bool) j.Resource {
			td := d()
			r := td.NewRes(soft)
			r.Set("id", "i1")
			for _, a := range td.Attrs {
				if a.K == str {
					r.Set(a.Name, "v")
				}
			}
			for _, rl := range td.Rels {
				if rl.ToOne {
					r.Set(rl.Name, "x")
				} else {
					r.Set(rl.Name, []string{"a", "b"})
				}
			}
			if post != nil {
				post(r)
			}
			return r
		}}
	}
	_ = fill
	return []c17Variant{
		v("base", base, nil),
		v("type-name", func() TypeD { d := base(); d.Name = "t2"; return d }, nil),
		v("attr-renamed", func() TypeD { d := base(); d.Attrs[0].Name = "k2"; return d }, nil),
		v("attr-renamed-late", func() TypeD { d := base(); d.Attrs[0].Name = "z"; return d }, nil),
		v("attr-value", base, func(r j.Resource) { r.Set("k", "w") }),
		v("nullable-set", base, func(r j.Resource) { r.Set("n", Ptr(int(0))) }),
		v("nullable-other", base, func(r j.Resource) { r.Set("n", Ptr(int(1))) }),
		v("pointer-to-nil-bytes", base, func(r j.Resource) { var b []byte; r.Set("pb", &b) }),
		v("pointer-to-empty-bytes", base, func(r j.Resource) { b := []byte{}; r.Set("pb", &b) }),
		v("attr-kind", func() TypeD { d := base(); d.Attrs[0].K = pstr; return d }, func(r j.Resource) { r.Set("k", Ptr("v")) }),
		v("time-zoned", base, func(r j.Resource) { r.Set("w", TimeAlph[4]); r.Set("pw", Ptr(TimeAlph[4])) }),
		v("time-same-instant-utc", base, func(r j.Resource) { r.Set("w", TimeAlph[4].UTC()); r.Set("pw", Ptr(TimeAlph[4].UTC())) }),
		v("time-later", base, func(r j.Resource) { r.Set("w", TimeAlph[4].Add(1)); r.Set("pw", Ptr(TimeAlph[4].Add(1))) }),
		v("time-nullable-only", base, func(r j.Resource) { r.Set("pw", Ptr(TimeAlph[4].UTC())) }),
		v("rel-renamed", func() TypeD { d := base(); d.Rels[0].Name = "one2"; return d }, nil),
		v("to-one-value", base, func(r j.Resource) { r.Set("one", "y") }),
		v("to-many-value", base, func(r j.Resource) { r.Set("many", []string{"a", "c"}) }),
		v("to-many-shorter", base, func(r j.Resource) { r.Set("many", []string{"a"}) }),
		v("to-many-joined", base, func(r j.Resource) { r.Set("many", []string{"a,b"}) }),
		v("to-many-empty-id", base, func(r j.Resource) { r.Set("many", []string{""}) }),
		v("to-many-comma-split", base, func(r j.Resource) { r.Set("many", []string{"a", "b", ""}) }),
		v("to-many-comma-split-2", base, func(r j.Resource) { r.Set("many", []string{"a", "b,"}) }),
		v("to-many-empty", base, func(r j.Resource) { r.Set("many", []string{}) }),
		v("id", base, func(r j.Resource) { r.Set("id", "i2") }),
		v("id-case", base, func(r j.Resource) { r.Set("id", "I1") }),
		v("extra-attr", func() TypeD { d := base(); d.Attrs = append(d.Attrs, AttrD{"e", str}); return d }, nil),
		v("missing-attr", func() TypeD { d := base(); d.Attrs = d.Attrs[:2]; return d }, nil),
		v("missing-rel", func() TypeD { d := base(); d.Rels = d.Rels[:1]; return d }, nil),
		v("rel-cardinality", func() TypeD { d := base(); d.Rels[1].ToOne = true; return d }, nil),
	}
}

// diffAspects is the harness's own reading of "differ in type name, field
// names, a field value": it lists the aspects in which a and b differ.
func diffAspects(a, b j.Resource) []string {
	var out []string
	if a.GetType().Name != b.GetType().Name {
		out = append(out, "type-name")
	}
	if !reflect.DeepEqual(SortedKeys(a.Attrs()), SortedKeys(b.Attrs())) {
		out = append(out, "attr-names")
	}
	if !reflect.DeepEqual(SortedKeys(a.Rels()), SortedKeys(b.Rels())) {
		out = append(out, "rel-names")
	}
	for _, n := range SortedKeys(a.Attrs()) {
		if _, ok := b.Attrs()[n]; !ok {
			continue
		}
		x, y := a.Get(n), b.Get(n)
		if IsNilVal(x) != IsNilVal(y) || (!IsNilVal(x) && (reflect.TypeOf(x) != reflect.TypeOf(y) || !SameAttrValue(x, y) || c17ZoneDiffers(x, y))) {
			out = append(out, "attr-values")
			break
		}
	}
	for _, n := range SortedKeys(a.Rels()) {
		rb, ok := b.Rels()[n]
		if !ok {
			continue
		}
		r := a.Rels()[n]
		if r.ToOne != rb.ToOne {
			out = append(out, "rel-cardinality")
			break
		}
		if r.ToOne {
			if a.Get(n) != b.Get(n) {
				out = append(out, "rel-values")
				break
			}
		} else {
			x, _ := a.Get(n).([]string)
			y, _ := b.Get(n).([]string)
			if len(x) != len(y) || (len(x) > 0 && !reflect.DeepEqual(x, y)) {
				out = append(out, "rel-values")
				break
			}
		}
	}
	return out
}

// two readings of one instant in different zones are different field values
// (they print, marshal and compare with == differently)
func c17ZoneDiffers(a, b any) bool {
	ta, ok1 := Deref(a).(time.Time)
	tb, ok2 := Deref(b).(time.Time)
	return ok1 && ok2 && ta.Format(time.RFC3339Nano) != tb.Format(time.RFC3339Nano)
}

func c17Equal(x *mc.Exec) {
	pool := c17Pool()
	ai := x.Choose(len(pool)*2, "a")
	bi := x.Choose(len(pool)*2, "b")
	va, vb := pool[ai/2], pool[bi/2]
	sa, sb := ai%2 == 0, bi%2 == 0
	a, b := va.mk(sa), vb.mk(sb)
	desc := fmt.Sprintf("%s/%s vs %s/%s", implName(sa), va.name, implName(sb), vb.name)
	x.Render(desc)
	x.R.Mark("nontrivial", mc.Hash(desc))
	x.R.Sample("pair", desc)
	var eab, eba, eaa, sab, sba, saa bool
	p := Try(func() {
		eab, eba, eaa = j.Equal(a, b), j.Equal(b, a), j.Equal(a, a)
		sab, sba, saa = j.EqualStrict(a, b), j.EqualStrict(b, a), j.EqualStrict(a, a)
	})
	x.R.Add("transitions", 6)
	x.Observe(desc, p, eab, eba, sab, sba)
	pairSig := "other"
	if va.name == "base" {
		pairSig = vb.name
	} else if vb.name == "base" {
		pairSig = va.name
	}
	if p != "" {
		x.Fail("C17:equal:panic:"+pairSig, "%s: Equal/EqualStrict panicked: %s", desc, p)
		return
	}
	if !eaa || !saa {
		x.Fail("C17:equal:reflexive", "%s: Equal(a,a)=%v EqualStrict(a,a)=%v", desc, eaa, saa)
	}
	if eab != eba || sab != sba {
		x.Fail("C17:equal:symmetric:"+pairSig, "%s: Equal(a,b)=%v Equal(b,a)=%v EqualStrict(a,b)=%v EqualStrict(b,a)=%v", desc, eab, eba, sab, sba)
	}
	asp := diffAspects(a, b)
	if eab && len(asp) > 0 {
		x.Fail("C17:equal:true-despite:"+strings.Join(asp, "+"), "%s: Equal is true although the resources differ in %v", desc, asp)
	}
	if sab && a.Get("id") != b.Get("id") {
		asp = append(asp, "id")
	}
	if sab && len(asp) > 0 {
		x.Fail("C17:equalstrict:true-despite:"+strings.Join(asp, "+"), "%s: EqualStrict is true although the resources differ in %v", desc, asp)
	}
}

func init() {
	Register(&Prop{
		ID: "C17",
		Rule: "Engine B: for each of the 28 kinds, breadth-first search over ALL Set histories (depth <= 4 quick / 8 thorough) on a soft resource and a struct-wrapped resource of the same type driven side by side (3 values of the kind + typed nil + untyped nil for nullable kinds, 2 values each for a string attribute, to-one, to-many and id), de-duplicated by deep snapshot; after every Set the caller overwrites in place the value it handed to the previous Set of that field; two searches: in the first nothing is read between the operations of a history ('read everything' is an operation of its own), in the second everything is read after every Set; after the last step every observable (GetType().Name, Attrs, Rels, attribute definition, Get of every field and id) of both implementations is compared with a map model. Engine A: a wrapped struct whose ID is of a named string type with its own String method, under all sequences of two Set(id) over 4 ids; 28 kinds x 5 constructors of fresh resources (Type.New soft/struct, SoftResource.New, Wrapper.New, Wrapper.New after Set); all ordered pairs of a pool of 29 resource variants (incl. one instant read in two zones) x {soft,wrapped} that differ from a base in exactly one aspect, for reflexivity, symmetry and 'never equal when different'",
		Assumptions: []string{"an unset byte string reads as empty or nil, a nil nullable as typed or untyped nil (as stated)", "one instant read in two zones counts as two different field values (they print, marshal and compare with == differently)", "a value handed to an earlier Set and since replaced belongs to the caller again"},
		Harnesses: []Harness{
			{Name: "C17/set-histories",
				Custom: func(c *Ctx) {
					for _, k := range AllKinds() {
						if !c17BFS(c, k).Explore() {
							c.R.Cap("C17/set-histories incomplete for " + k.String())
						}
					}
				},
				ReplayCustom: func(c *Ctx, choices []int) []mc.Violation {
					// the kind is not part of the history: try each and keep failures
					var all []mc.Violation
					for _, k := range AllKinds() {
						if len(choices) > 0 && choices[0] >= len(c17Ops(k)) {
							continue
						}
						v, _ := c17BFS(c, k).ReplayHistory(choices)
						all = append(all, v...)
					}
					return all
				}},
			{Name: "C17/set-histories-read-after-every-step",
				Custom: func(c *Ctx) {
					c17Eager = true
					defer func() { c17Eager = false }()
					for _, k := range AllKinds() {
						if !c17BFS(c, k).Explore() {
							c.R.Cap("C17/set-histories incomplete for " + k.String())
						}
					}
				},
				ReplayCustom: func(c *Ctx, choices []int) []mc.Violation {
					c17Eager = true
					defer func() { c17Eager = false }()
					// the kind is not part of the history: try each and keep failures
					var all []mc.Violation
					for _, k := range AllKinds() {
						if len(choices) > 0 && choices[0] >= len(c17Ops(k)) {
							continue
						}
						v, _ := c17BFS(c, k).ReplayHistory(choices)
						all = append(all, v...)
					}
					return all
				}},
			{Name: "C17/fresh", Body: c17Fresh},
			{Name: "C17/named-id", Body: c17NamedID},
			{Name: "C17/equal", Body: c17Equal},
		},
	})
}
