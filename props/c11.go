package props

import (
	"encoding/json"
	"fmt"
	"runtime"
	"os"
	"os/exec"
	"strings"
	"time"

	j "github.com/mfcochauxlaberge/jsonapi"

	"verif/mc"
)

// C11 — marshaling is deterministic and depends only on content.

var c11BaseNames = []string{"soft resource + included", "wrapped resource + included", "Resources(mixed)", "SoftCollection", "WrapperCollection", "errors", "identifiers + meta + links", "weird names", "wide type, long unsorted selection", "Resources(mixed), no selection entry for a member's type", "soft resource + 45 included, 4 processors", "soft resource whose values sit behind pointers (nanosecond times, byte strings)", "wrapped resource whose values sit behind pointers"}

// a type with more fields than any "short list" fast path, selected in reverse order
var c11Wide = func() TypeD {
	d := TypeD{Name: "w"}
	for i := 0; i < 10; i++ {
		d.Attrs = append(d.Attrs, AttrD{fmt.Sprintf("f%d", i), kStr})
	}
	d.Rels = []RelD{{"r1", true, "u", ""}, {"r2", false, "u", ""}}
	return d
}()

// values a marshaler could be tempted to normalise in place: times with nanoseconds and a zone,
// byte strings, all also behind pointers
var c11Vals = TypeD{Name: "v", Attrs: []AttrD{{"at", Kind{j.AttrTypeTime, false}}, {"pat", Kind{j.AttrTypeTime, true}}, {"y", Kind{j.AttrTypeBytes, false}}, {"py", Kind{j.AttrTypeBytes, true}}, {"ps", Kind{j.AttrTypeString, true}}},
	Rels: []RelD{{"many", false, "u", ""}}}

// c11Params are the order-irrelevant parts of a base document.
type c11Params struct {
	many     []string
	selT     []string
	relDataT []string
	inclPerm []int
}

func c11Default() c11Params {
	return c11Params{many: []string{"ab", "u1", "AB"}, selT: []string{"s", "n", "one", "many"}, relDataT: []string{"zzz", "one", "many"}, inclPerm: []int{0, 1, 2}}
}

func c11Base(i int, p c11Params) *DocCase {
	c := &DocCase{}
	softT := i != 1 && i != 4
	c.Schema = BuildSchema([]TypeD{docT, docU, docQ, c11Wide, c11Vals, {Name: "tu", Attrs: []AttrD{{"s", kStr}}}}, []bool{softT, i%2 == 0, true, true, i != 12, true})
	mkT := func(soft bool, id string, v int) j.Resource {
		r := docRes(docT, soft, id, v)
		many := append([]string{}, p.many...)
		if i == 0 || i == 4 {
			// a to-many list may name the same resource more than once
			many = append(many, "AB", "AB") // the repeated id sorts first, so an in-place compaction moves elements
		}
		r.Set("many", many)
		return r
	}
	// included: two types whose order by type name ("t" < "u") disagrees with the
	// order of their ids ("z9" > "u1")
	incl := []j.Resource{docRes(docU, i%2 == 0, "u1", 0), docRes(docU, i%2 == 0, "u2", 1), mkT(softT, "z9", 2)}
	relDataT := append([]string{}, p.relDataT...)
	if i%2 == 1 || i == 2 {
		// some but not all selected relationships carry data (the request also names something
		// that is no field of the type, as a request written for another type would)
		var nd []string
		for _, n := range relDataT {
			if n != "one" {
				nd = append(nd, n)
			}
		}
		relDataT = nd
	}
	doc := &j.Document{PrePath: "https://h", RelData: map[string][]string{"t": relDataT, "u": {"back"}}}
	for _, k := range p.inclPerm {
		doc.Included = append(doc.Included, incl[k])
	}
	if i == 3 {
		// two included resources whose type name + id concatenations coincide ("t"+"u1z", "tu"+"1z"),
		// in an order that follows the permutation of the others
		tu := TypeD{Name: "tu", Attrs: []AttrD{{"s", kStr}}}
		a, b := mkT(softT, "u1z", 0), j.Resource(tu.NewRes(true))
		b.Set("id", "1z")
		b.Set("s", "other type")
		if p.inclPerm[0] != 0 {
			a, b = b, a
		}
		doc.Included = append(doc.Included, a, b)
	}
	frag := []string{"t"}
	switch i {
	case 0, 1, 10:
		doc.Data = mkT(softT, "t1", 1)
		frag = []string{"t", "t1"}
		if i == 10 {
			// far more included resources than any small-input fast path (chunked or parallel
			// marshaling) would leave alone, in scrambled order; the three permutable ones first
			for k := 0; k < 42; k++ {
				doc.Included = append(doc.Included, docRes(docU, true, fmt.Sprintf("x%02d", (k*29)%42), k))
			}
		}
	case 2, 9:
		col := &j.Resources{}
		col.Add(mkT(true, "t2", 1))
		col.Add(docRes(docU, true, "u5", 0))
		col.Add(mkT(true, "t1", 2))
		doc.Data = col
	case 3:
		typ := docT.SoftType()
		col := &j.SoftCollection{}
		col.SetType(&typ)
		col.Add(mkT(true, "t2", 1))
		col.Add(mkT(true, "t1", 0))
		doc.Data = col
	case 4:
		col := j.WrapCollection(docT.NewRes(false))
		col.Add(mkT(false, "t2", 1))
		col.Add(mkT(false, "t1", 0))
		doc.Data = col
	case 5:
		for k := 0; k < 2; k++ {
			e := j.NewError()
			e.ID, e.Status, e.Title = fmt.Sprint("e", k), "400", "t"
			e.Links = map[string]string{"about": "a", "type": "b", "x": "c"}
			e.Source = map[string]any{"pointer": "/p", "parameter": "q", "header": "h"}
			e.Meta = j.Meta{"a": 1.0, "b": map[string]any{"y": 1.0, "x": 2.0}, "c": nil}
			doc.Errors = append(doc.Errors, e)
		}
		doc.Included = nil
	case 6:
		doc.Data = j.Identifiers{{ID: "u2", Type: "u"}, {ID: "u1", Type: "u"}}
		doc.Included = nil
		doc.Meta = j.Meta{"z": 1.0, "a": map[string]any{"k2": []any{1.0, "x"}, "k1": nil}, "m": "v"}
		doc.Links = map[string]j.Link{"next": {HRef: "/n"}, "prev": {HRef: "/p", Meta: map[string]any{"b": 1.0, "a": 2.0}}, "first": {HRef: "/f"}}
		frag = []string{"t", "t1", "relationships", "many"}
	case 8:
		r := c11Wide.NewRes(true)
		r.Set("id", "w1")
		for k := 0; k < 10; k++ {
			r.Set(fmt.Sprintf("f%d", k), fmt.Sprint("v", k))
		}
		r.Set("r2", []string{"b", "a"})
		doc.Data = r
		doc.RelData["w"] = []string{"r2", "r1"}
		frag = []string{"w", "w1"}
	case 11, 12:
		r := c11Vals.NewRes(i == 11)
		r.Set("id", "v1")
		tm := time.Date(2021, 6, 1, 1, 2, 3, 123456789, zPlus)
		r.Set("at", tm)
		r.Set("pat", &tm)
		r.Set("y", []byte{3, 1, 2})
		py := []byte{9, 8}
		r.Set("py", &py)
		r.Set("ps", Ptr(" padded "))
		r.Set("many", append([]string{}, p.many...))
		doc.Data = r
		doc.RelData["v"] = []string{"many"}
		frag = []string{"v", "v1"}
	case 7:
		doc.Data = docRes(docQ, true, weirdID, 0)
		doc.Included = []j.Resource{docRes(docQ, true, "w2", 1)}
		frag = []string{docQ.Name, weirdID}
	}
	fields := map[string][]string{"t": append([]string{}, p.selT...), "u": {"back", "b"}, docQ.Name: {"s"},
		"w": {"r2", "r1", "f9", "f8", "f7", "f6", "f5", "f4", "f3", "f2", "f1", "f0"},
		"v": {"py", "many", "pat", "y", "at", "ps"}, "tu": {"s"}}
	if i == 9 {
		delete(fields, "u")
		doc.Included = doc.Included[:0]
		for _, k := range p.inclPerm {
			if incl[k].GetType().Name != "u" {
				doc.Included = append(doc.Included, incl[k])
			}
		}
	}
	c.Fields = fields
	c.Doc = doc
	c.URL = &j.URL{Fragments: frag, ResType: frag[0], IsCol: len(frag) == 1,
		Params: &j.Params{Fields: fields, RelData: map[string][]string{}, SortingRules: []string{"s", "-n", "id"}, Include: [][]j.Rel{},
			Page: map[string]any{"size": 10, "number": 2, "cursor": "c<1>", "limit": 5, "after": "x", "Zed": true}, FilterLabel: "lbl",
			// operands in an order that is neither sorted nor reversed
			Filter: &j.Filter{Op: "and", Val: []*j.Filter{{Field: "size", Op: ">", Val: 3.0}, {Field: "tag", Op: "=", Val: "x"},
				{Op: "or", Val: []*j.Filter{{Field: "name", Op: "=", Val: "n"}, {Field: "age", Op: "<", Val: 9.0}, {Field: "city", Op: "=", Val: "c"}}}, {Field: "name", Op: "=", Val: "n"}}}}}
	c.Desc = c11BaseNames[i]
	return c
}

// c11Readable renders what can later be read from the document's resources and
// the URL, modulo the three orders the statement exempts.
func c11Readable(c *DocCase) string {
	var b strings.Builder
	resStr := func(r j.Resource) string {
		var b strings.Builder
		fmt.Fprintf(&b, "[%s/%v", r.GetType().Name, r.Get("id"))
		for _, n := range SortedKeys(r.Attrs()) {
			fmt.Fprintf(&b, " %s=%s", n, ShowVal(r.Get(n)))
		}
		for _, n := range SortedKeys(r.Rels()) {
			v := r.Get(n)
			if l, ok := v.([]string); ok {
				l = append([]string{}, l...)
				sortStrings(l)
				v = l
			}
			fmt.Fprintf(&b, " %s=%v", n, v)
		}
		b.WriteString("]")
		return b.String()
	}
	switch d := c.Doc.Data.(type) {
	case j.Resource:
		b.WriteString(resStr(d))
	case j.Collection:
		for i := 0; i < d.Len(); i++ {
			b.WriteString(resStr(d.At(i)))
		}
	default:
		fmt.Fprintf(&b, "%v", d)
	}
	var inc []string
	for _, r := range c.Doc.Included {
		inc = append(inc, resStr(r))
	}
	sortStrings(inc)
	fmt.Fprintf(&b, " included=%v", inc)
	// (doc.Links, doc.Meta, doc.RelData are not "the document's resources or
	// the URL": MarshalDocument adds links.self to the caller's Links map and the
	// statement does not forbid it)
	u := c.URL
	fmt.Fprintf(&b, " url: %v %s %s", u.Fragments, u.ResType, u.ResID)
	for _, t := range SortedKeys(u.Params.Fields) {
		l := append([]string{}, u.Params.Fields[t]...)
		sortStrings(l)
		fmt.Fprintf(&b, " fields[%s]=%v", t, l)
	}
	fj, _ := json.Marshal(u.Params.Filter)
	fmt.Fprintf(&b, " sort=%v page=%v filter=%q %s", u.Params.SortingRules, u.Params.Page, u.Params.FilterLabel, fj)
	return b.String()
}

func c11Marshal(c *DocCase) (out []byte, failure string) {
	var err error
	if p := Try(func() { out, err = j.MarshalDocument(c.Doc, c.URL) }); p != "" {
		return nil, "panic: " + p
	}
	if err != nil {
		return nil, "error: " + err.Error()
	}
	return out, ""
}

func c11Body(x *mc.Exec) {
	base := x.Choose(len(c11BaseNames), "base")
	if x.Bool("with another program's documents in between") {
		c11Between(x, base)
		return
	}
	if base == 10 {
		// the explorer's own processes run on one processor; this base is marshaled with four
		defer runtime.GOMAXPROCS(runtime.GOMAXPROCS(4))
	}
	mode := x.Choose(4, "mode")
	ref := c11Base(base, c11Default())
	want, f := c11Marshal(ref)
	if f != "" {
		x.Fail("C11:marshal-failed", "base %q: %s", c11BaseNames[base], f)
		return
	}
	x.R.Add("transitions", 1)
	sig := fmt.Sprintf("C11:base%d:", base)
	switch mode {
	case 0: // every map-iteration order of a bounded number of loop instances
		c := c11Base(base, c11Default())
		var got []byte
		WithMapDev(x, func() { got, f = c11Marshal(c) })
		x.R.Add("transitions", 1)
		devs := 0
		for _, ch := range x.Choices()[2:] {
			if ch != 0 {
				devs++
			}
		}
		x.Observe(base, mode, string(got))
		if devs > 0 {
			x.R.Mark("nontrivial", mc.Hash(x.Choices()))
		}
		x.Render(fmt.Sprintf("base %q under map schedule %v", c11BaseNames[base], x.Choices()[2:]))
		if f != "" || string(got) != string(want) {
			x.Fail(sig+"map-order-dependent", "base %q: output depends on map iteration order (choices %v):\n  canonical: %.300s\n  this run:  %.300s %s", c11BaseNames[base], x.Choices()[2:], want, got, f)
		}
		x.R.Sample("map-schedule", fmt.Sprintf("base %q, %d deviating loop instance(s)", c11BaseNames[base], devs))
	case 1: // uniform schedules
		for m := 1; m <= 2; m++ {
			c := c11Base(base, c11Default())
			var got []byte
			WithMapUniform(m, func() { got, f = c11Marshal(c) })
			x.R.Add("transitions", 1)
			x.R.Mark("nontrivial", mc.Hash("uniform", base, m))
			if f != "" || string(got) != string(want) {
				x.Fail(sig+"map-order-dependent", "base %q: output differs when every map loop runs %s:\n  canonical: %.300s\n  this run:  %.300s %s", c11BaseNames[base], []string{"", "reversed", "rotated"}[m], want, got, f)
			}
		}
	case 2: // content permutations
		dim := x.Choose(4, "dimension")
		p := c11Default()
		what := ""
		switch dim {
		case 0:
			k := x.Choose(6, "to-many order")
			perm := mc.Perm(3, k)
			src := c11Default().many
			p.many = []string{src[perm[0]], src[perm[1]], src[perm[2]]}
			what = fmt.Sprintf("to-many order %v", p.many)
		case 1:
			k := x.Choose(24, "selection order")
			perm := mc.Perm(4, k)
			src := c11Default().selT
			p.selT = []string{src[perm[0]], src[perm[1]], src[perm[2]], src[perm[3]]}
			what = fmt.Sprintf("selection order %v", p.selT)
		case 2:
			k := x.Choose(6, "relData order")
			perm := mc.Perm(3, k)
			src := c11Default().relDataT
			p.relDataT = []string{src[perm[0]], src[perm[1]], src[perm[2]]}
			what = fmt.Sprintf("relData order %v", p.relDataT)
		case 3:
			k := x.Choose(6, "included order")
			p.inclPerm = mc.Perm(3, k)
			what = fmt.Sprintf("included order %v", p.inclPerm)
		}
		c := c11Base(base, p)
		got, f := c11Marshal(c)
		x.R.Add("transitions", 1)
		x.R.Mark("nontrivial", mc.Hash(base, what))
		x.Render(fmt.Sprintf("base %q with %s", c11BaseNames[base], what))
		x.R.Sample("content-permutation", fmt.Sprintf("base %q with %s", c11BaseNames[base], what))
		if f != "" || string(got) != string(want) {
			x.Fail(sig+"content-order-dependent:"+[]string{"to-many", "selection", "reldata", "included"}[dim], "base %q with %s: output differs from the default order:\n  default: %.300s\n  this:    %.300s %s", c11BaseNames[base], what, want, got, f)
		}
	case 3: // repetition on the same objects + nothing else changes
		c := c11Base(base, c11Default())
		before := c11Readable(c)
		for i := 0; i < 3; i++ {
			got, f := c11Marshal(c)
			x.R.Add("transitions", 1)
			if f != "" || string(got) != string(want) {
				x.Fail(sig+"repetition", "base %q: marshal number %d of the same document differs:\n  first: %.300s\n  now:   %.300s %s", c11BaseNames[base], i+1, want, got, f)
				break
			}
		}
		if after := c11Readable(c); after != before {
			x.Fail(sig+"marshal-changed-inputs", "base %q: marshaling changed what is read from the document or URL:\n  before: %s\n  after:  %s", c11BaseNames[base], before, after)
		}
		// the same objects, used again after the caller re-ordered the order-irrelevant parts
		// (a marshaler that remembers "already sorted" would now emit them as given)
		rev := func(l []string) []string {
			o := make([]string, len(l))
			for i := range l {
				o[len(l)-1-i] = l[i]
			}
			return o
		}
		for t, l := range c.URL.Params.Fields {
			c.URL.Params.Fields[t] = rev(l)
		}
		for t, l := range c.Doc.RelData {
			c.Doc.RelData[t] = rev(l)
		}
		for i, k := 0, len(c.Doc.Included)-1; i < k; i, k = i+1, k-1 {
			c.Doc.Included[i], c.Doc.Included[k] = c.Doc.Included[k], c.Doc.Included[i]
		}
		if r, ok := c.Doc.Data.(j.Resource); ok {
			for n, rel := range r.Rels() {
				if l, isList := r.Get(n).([]string); isList && !rel.ToOne {
					r.Set(n, rev(l))
				}
			}
		}
		got, f := c11Marshal(c)
		x.R.Add("transitions", 1)
		if f != "" || string(got) != string(want) {
			x.Fail(sig+"reuse-after-reordering", "base %q: after three marshals the selections, relationship-data lists, included list and to-many ids were reversed in place; the next marshal differs:\n  before: %.300s\n  now:    %.300s %s", c11BaseNames[base], want, got, f)
		}
		x.R.Mark("nontrivial", mc.Hash("rep", base))
	}
}

// c11Between: "depends only on content": between two marshals of a document, documents whose
// resource types have the SAME NAMES but other fields are marshaled (a partial resource, another
// service's model): each output must be what its own content says.
func c11Between(x *mc.Exec, base int) {
	ref := c11Base(base, c11Default())
	want, f := c11Marshal(ref)
	if f != "" {
		x.Fail("C11:marshal-failed", "base %q: %s", c11BaseNames[base], f)
		return
	}
	x.R.Add("transitions", 1)
	x.R.Mark("nontrivial", mc.Hash("between", base))
	for _, name := range []string{"t", "u", docQ.Name, "w"} {
		d := TypeD{Name: name, Attrs: []AttrD{{"zz", kStr}, {"n", kStr}}, Rels: []RelD{{"many", true, "u", ""}}}
		r := d.NewRes(true)
		r.Set("id", "o1")
		r.Set("zz", "Z")
		r.Set("n", "N")
		r.Set("many", "single")
		u := &j.URL{Fragments: []string{name, "o1"}, ResType: name, ResID: "o1",
			Params: &j.Params{Fields: map[string][]string{name: {"zz", "n", "many"}}, RelData: map[string][]string{}, SortingRules: []string{}, Include: [][]j.Rel{}}}
		var out []byte
		var err error
		if p := Try(func() {
			out, err = j.MarshalDocument(&j.Document{Data: r, RelData: map[string][]string{name: {"many"}}}, u)
		}); p != "" || err != nil {
			x.Fail("C11:between:other-failed", "marshaling a %q resource with other fields after base %q: panic %q error %v", name, c11BaseNames[base], p, err)
			return
		}
		x.R.Add("transitions", 1)
		var top struct {
			Data struct {
				Attributes    map[string]any
				Relationships map[string]struct{ Data any }
			}
		}
		_ = json.Unmarshal(out, &top)
		one, _ := top.Data.Relationships["many"].Data.(map[string]any)
		if len(top.Data.Attributes) != 2 || top.Data.Attributes["zz"] != "Z" || top.Data.Attributes["n"] != "N" || len(top.Data.Relationships) != 1 || one["id"] != "single" {
			x.Fail("C11:between:output-depends-on-earlier-documents", "after base %q, a %q resource with attributes zz, n and a to-one relationship many marshals as %.300s", c11BaseNames[base], name, out)
			return
		}
	}
	again, f := c11Marshal(c11Base(base, c11Default()))
	x.R.Add("transitions", 1)
	if f != "" || string(again) != string(want) {
		x.Fail("C11:between:output-depends-on-earlier-documents", "base %q marshals differently after documents with same-named types of other shapes were marshaled:\n  before: %.300s\n  after:  %.300s %s", c11BaseNames[base], want, again, f)
	}
}

// c11Conformance runs the repository's own test suite against the INSTRUMENTED
// build under the sorted, reversed and rotated uniform map schedules: it binds
// the rewritten map loops (the explored transition function) to the original
// ones on everything the suite can see. A failure is an infrastructure error
// (the instrumentation, or a test, depends on the order), never a VIOLATION.
func c11Conformance(c *Ctx) {
	if !Thorough() {
		c.R.Note("conformance run of the repository suite on the instrumented build: thorough tier and setup.sh only")
		return
	}
	ov := os.Getenv("VERIF_OVERLAY_DIR")
	if ov == "" {
		c.R.Note("conformance run skipped: VERIF_OVERLAY_DIR not set")
		return
	}
	for _, mode := range []string{"", "reverse", "rotate"} {
		cmd := exec.Command("go", "test", "-vet=off", "-count=1", "-overlay", ov+"/full.json", "./...")
		cmd.Dir = "/repo"
		cmd.Env = append(os.Environ(), "VERIF_MC_UNIFORM="+mode)
		out, err := cmd.CombinedOutput()
		c.R.Add("conformance_suite_runs", 1)
		if err != nil {
			c.R.InfraError("repository suite fails on the instrumented build under the %q schedule: %v\n%s", mode, err, firstLines(string(out), 30))
			return
		}
	}
	c.R.Note("conformance: the repository's own suite passes on the instrumented build under the sorted, reversed and rotated map schedules")
}

func init() {
	Register(&Prop{
		Post: c11Conformance,
		ID: "C11",
		Rule: "Engine A over 13 base (document, URL) pairs, every URL with size, number and four custom page[...] keys and a nested filter of unsorted operands (soft / wrapped single resource with 3 included of mixed implementations, Resources / SoftCollection / WrapperCollection, errors with links/source/meta maps, identifiers + nested meta + links map, names needing escapes, a 12-field type with a long selection given in reverse order, a mixed collection one of whose member types has no selection entry, a document with 45 included resources marshaled on 4 processors, soft and wrapped resources whose values sit behind pointers: zoned nanosecond times, byte strings): (i) map schedules: the iteration order of EVERY instrumented map-range loop instance met while marshaling (all n! orders for n <= 4 keys, reversal/rotations/adjacent swaps above) is an environment choice; all executions with <= 1 (thorough 2) deviating loop instances, plus the uniform reversed and rotated schedules; (ii) all orders of a 3-id to-many list, of a 4-name field selection, of a 3-name relationship-data list (one name no field of the type) and of an included list with distinct ids (two of them with coinciding type+id concatenations); (iii) three marshals in a row on the same objects, then a fourth after every order-irrelevant part was reversed in place; (iv) each base marshaled before and after documents whose types have the same names and other fields. Oracle: byte-identical output everywhere; everything later readable from the resources and the URL (modulo the three exempted orders) unchanged. Non-trivial = execution with at least one deviating loop / a non-default permutation",
		Assumptions: []string{"the repository suite passing under the instrumented build (sorted, reversed, rotated schedules) binds the rewritten loops to the original ones"},
		Harnesses: []Harness{{Name: "C11/marshal", Body: c11Body, Dev: func() int {
			if Thorough() {
				return 2
			}
			return 1
		}}},
	})
}
