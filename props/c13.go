package props

import (
	"fmt"
	"reflect"
	"sort"
	"strings"

	j "github.com/mfcochauxlaberge/jsonapi"

	"verif/mc"
)

// C13 — partial unmarshaling reports exactly the fields present.

var c13T = TypeD{Name: "t",
	Attrs: []AttrD{{"s", Kind{j.AttrTypeString, false}}, {"n", Kind{j.AttrTypeInt, true}}, {"prénom", Kind{j.AttrTypeBool, false}}},
	Rels:  []RelD{{"one", true, "u", ""}, {"équipe_", false, "u", ""}, {"two", true, "u", ""}}}

func c13Body(x *mc.Exec) { c13Run(x, false) }

// c13Order explores the member-visiting order on a reduced product.
func c13Order(x *mc.Exec) { c13Run(x, true) }

func c13Run(x *mc.Exec, order bool) {
	soft := x.Choose(2, "impl") == 0
	schema := BuildSchema([]TypeD{c13T, {Name: "u"}}, []bool{soft, true})

	attrForms := map[string][]string{
		"s": {"", `"v"`, "null", "5"},
		"n": {"", "7", "null", `"x"`},
		"prénom": {"", "true", "null", `"true"`},
	}
	var aparts []string
	attrsIn := []string{}
	for _, n := range []string{"s", "n", "prénom"} {
		nf := 4
		if order {
			nf = 2
			if n != "s" {
				nf = 1
			}
		}
		f := attrForms[n][x.Choose(nf, "attr "+n)]
		if f != "" {
			aparts = append(aparts, fmt.Sprintf("%q:%s", n, f))
			attrsIn = append(attrsIn, n)
		}
	}
	relForms := []struct {
		js      string
		hasData bool
	}{
		{"", false}, {`{}`, false}, {`{"links":{"self":"/x"}}`, false}, {`{"meta":{"k":1}}`, false},
		{`{"data":null}`, true}, {`{"data":{"type":"u","id":"a"}}`, true}, {`{"data":[]}`, true},
		{`{"data":[{"type":"u","id":"b"},{"type":"u","id":"a"}]}`, true}, {`{"data":5}`, true},
		{`{"data":null,"links":{"self":"/x"}}`, true},
		// the same id listed twice; identifiers without id
		{`{"data":[{"type":"u","id":"a"},{"type":"u","id":"b"},{"type":"u","id":"a"}]}`, true},
		{`{"data":[{"type":"u"},{"type":"u"}]}`, true},
		// identifiers naming another type than the relationship's target (single and in a list)
		{`{"data":{"type":"t","id":"a"}}`, true},
		{`{"data":[{"type":"u","id":"a"},{"type":"nope","id":"b"}]}`, true},
	}
	var rparts []string
	relsWithData := []string{}
	for _, n := range []string{"one", "équipe_"} {
		f := relForms[x.Choose(len(relForms), "rel "+n)]
		if f.js != "" {
			rparts = append(rparts, fmt.Sprintf("%q:%s", n, f.js))
		}
		if f.hasData {
			relsWithData = append(relsWithData, n)
		}
	}
	// a second to-one relationship: absent, null, identifier without id, identifier
	twoForms := []struct {
		js      string
		hasData bool
	}{{"", false}, {`{"data":null}`, true}, {`{"data":{"type":"u"}}`, true}, {`{"data":{"type":"u","id":"k2"}}`, true}}
	tf := twoForms[x.Choose(len(twoForms), "rel two")]
	if tf.js != "" {
		rparts = append(rparts, `"two":`+tf.js)
	}
	if tf.hasData {
		relsWithData = append(relsWithData, "two")
	}
	nextra := 9
	if order {
		nextra = 1
	}
	extra := x.Choose(nextra, "extra")
	typeName := "t"
	switch extra {
	case 1:
		aparts = append(aparts, `"zzz":1`)
	case 2:
		rparts = append(rparts, `"zzz":{"data":null}`)
	case 3:
		typeName = "nope"
	case 4:
		rparts = append(rparts, `"zzz":{}`)
	case 5:
		// a relationships member named after an ATTRIBUTE of the type (and vice versa): unknown there
		rparts = append(rparts, `"prénom":{"data":[]}`)
	case 6:
		rparts = append(rparts, `"prénom":{"data":null}`)
	case 7:
		rparts = append(rparts, `"prénom":{}`)
	case 8:
		aparts = append(aparts, `"two":"x"`)
	}
	payload := fmt.Sprintf(`{"id":"i1","type":%q`, typeName)
	if len(aparts) > 0 {
		payload += `,"attributes":{` + strings.Join(aparts, ",") + "}"
	}
	if len(rparts) > 0 {
		payload += `,"relationships":{` + strings.Join(rparts, ",") + "}"
	}
	payload += "}"
	x.Render(payload)
	x.R.Sample("payload", payload)

	var full j.Resource
	var ferr error
	fp := Try(func() { full, ferr = j.UnmarshalResource([]byte(payload), schema) })
	var part *j.SoftResource
	var perr error
	var pp string
	if order {
		WithMapDevIn(x, map[string]bool{"UnmarshalPartialResource": true}, func() {
			pp = Try(func() { part, perr = j.UnmarshalPartialResource([]byte(payload), schema) })
		})
	} else {
		pp = Try(func() { part, perr = j.UnmarshalPartialResource([]byte(payload), schema) })
	}
	x.R.Add("transitions", 2)
	x.Observe(payload, fp, pp, ferr != nil, perr != nil)
	sig := "C13:" + implName(soft)
	if pp != "" {
		x.Fail(sig+":panic", "UnmarshalPartialResource panicked on %s: %s", payload, pp)
		return
	}
	if fp != "" {
		return // C05's business
	}
	if (ferr == nil) != (perr == nil) {
		x.Fail(sig+":acceptance-differs", "payload %s: full unmarshal error=%v, partial unmarshal error=%v", payload, ferr, perr)
		return
	}
	if perr != nil {
		return
	}
	if len(attrsIn)+len(relsWithData) > 0 && len(attrsIn)+len(relsWithData) < 6 {
		x.R.Mark("nontrivial", mc.Hash(payload, soft))
	}
	if part == nil {
		x.Fail(sig+":nil-result", "payload %s accepted but result is nil", payload)
		return
	}
	var problem string
	if p := Try(func() {
		st := schema.GetType(typeName)
		if part.GetType().Name != st.Name {
			problem = fmt.Sprintf("type name %q, schema type %q", part.GetType().Name, st.Name)
			return
		}
		gotA := SortedKeys(part.Attrs())
		wantA := append([]string{}, attrsIn...)
		sort.Strings(wantA)
		if !reflect.DeepEqual(gotA, wantA) {
			problem = fmt.Sprintf("attributes %v, payload has %v", gotA, wantA)
			return
		}
		gotR := SortedKeys(part.Rels())
		wantR := append([]string{}, relsWithData...)
		sort.Strings(wantR)
		if !reflect.DeepEqual(gotR, wantR) {
			problem = fmt.Sprintf("relationships %v, payload carries data for %v", gotR, wantR)
			return
		}
		for n, a := range part.Attrs() {
			if a != st.Attrs[n] {
				problem = fmt.Sprintf("attribute %q defined as %+v, schema says %+v", n, a, st.Attrs[n])
				return
			}
			if !SameAttrValue(part.Get(n), full.Get(n)) {
				problem = fmt.Sprintf("attribute %q is %s, full unmarshaling gives %s", n, ShowVal(part.Get(n)), ShowVal(full.Get(n)))
				return
			}
		}
		for n, r := range part.Rels() {
			if r != st.Rels[n] {
				problem = fmt.Sprintf("relationship %q defined as %+v, schema says %+v", n, r, st.Rels[n])
				return
			}
			if !reflect.DeepEqual(part.Get(n), full.Get(n)) {
				problem = fmt.Sprintf("relationship %q is %v, full unmarshaling gives %v", n, part.Get(n), full.Get(n))
				return
			}
		}
		for _, n := range FieldNames(st) {
			_, isA := part.Attrs()[n]
			_, isR := part.Rels()[n]
			if !isA && !isR && part.Get(n) != nil {
				problem = fmt.Sprintf("absent field %q reads %v, want nil", n, part.Get(n))
				return
			}
		}
		if g, _ := part.Get("id").(string); g != "i1" {
			problem = fmt.Sprintf("id is %q", g)
		}
	}); p != "" {
		x.Fail(sig+":inspect-panic", "inspecting the partial resource of %s panicked: %s", payload, p)
		return
	}
	if problem != "" {
		what := strings.SplitN(problem, " ", 2)[0]
		x.Fail(sig+":"+what, "payload %s: %s", payload, problem)
	}
}

// c13TwoSchemas: "each with the schema's definition" - the schema given to THIS
// call. Two schemas declare a type of the same name with the same field names
// but different definitions; payloads are unmarshaled against them alternately.
func c13TwoSchemas(x *mc.Exec) {
	kinds := []Kind{kStr, kInt, kPInt, kBool}
	k1 := kinds[x.Choose(len(kinds), "kind in schema 1")]
	k2 := kinds[x.Choose(len(kinds), "kind in schema 2")]
	soft1, soft2 := x.Bool("schema 1 soft"), x.Bool("schema 2 soft")
	lit := map[Kind]string{kStr: `"7"`, kInt: "7", kPInt: "7", kBool: "true"}
	mk := func(k Kind, soft bool, toOne bool) *j.Schema {
		d := TypeD{Name: "t", Attrs: []AttrD{{"code", k}}, Rels: []RelD{{"rel", toOne, "t", ""}}}
		return BuildSchema([]TypeD{d}, []bool{soft})
	}
	s1, s2 := mk(k1, soft1, true), mk(k2, soft2, false)
	order := []int{1, 2, 1}
	if x.Bool("start with schema 2") {
		order = []int{2, 1, 2}
	}
	desc := fmt.Sprintf("t.code is %s in schema 1 and %s in schema 2; calls %v", k1, k2, order)
	x.Render(desc)
	x.R.Mark("nontrivial", mc.Hash(desc, soft1, soft2))
	for _, which := range order {
		s, k, toOne := s1, k1, true
		if which == 2 {
			s, k, toOne = s2, k2, false
		}
		data := `{"type":"t","id":"a"}`
		if !toOne {
			data = `[{"type":"t","id":"a"}]`
		}
		payload := `{"type":"t","id":"1","attributes":{"code":` + lit[k] + `},"relationships":{"rel":{"data":` + data + `}}}`
		var r *j.SoftResource
		var err error
		if p := Try(func() { r, err = j.UnmarshalPartialResource([]byte(payload), s) }); p != "" || err != nil || r == nil {
			x.Fail("C13:two-schemas:rejected", "%s: schema %d rejects %s: panic %q err %v", desc, which, payload, p, err)
			return
		}
		x.R.Add("transitions", 1)
		want := s.GetType("t")
		if got := r.Attrs()["code"]; got != want.Attrs["code"] {
			x.Fail("C13:two-schemas:attr-definition", "%s: against schema %d attribute code is defined as %+v, the schema says %+v", desc, which, got, want.Attrs["code"])
			return
		}
		if got := r.Rels()["rel"]; got != want.Rels["rel"] {
			x.Fail("C13:two-schemas:rel-definition", "%s: against schema %d relationship rel is defined as %s, the schema says %s", desc, which, showRel(got), showRel(want.Rels["rel"]))
			return
		}
		full, _ := j.UnmarshalResource([]byte(payload), s)
		if full != nil && (!SameAttrValue(full.Get("code"), r.Get("code")) || !reflect.DeepEqual(full.Get("rel"), r.Get("rel"))) {
			x.Fail("C13:two-schemas:value", "%s: against schema %d code=%s rel=%v, full unmarshaling gives %s / %v", desc, which, ShowVal(r.Get("code")), r.Get("rel"), ShowVal(full.Get("code")), full.Get("rel"))
			return
		}
	}
}

// c13Framing: "accepted if and only if full unmarshaling accepts it" also holds
// for what surrounds the resource object: leading / trailing whitespace, trailing
// bytes after the first JSON value, truncation, non-object values, repeated members.
func c13Framing(x *mc.Exec) {
	soft := x.Bool("soft")
	schema := BuildSchema([]TypeD{c13T, {Name: "u"}}, []bool{soft, true})
	cores := []string{
		`{"id":"i1","type":"t","attributes":{"s":"v"}}`,
		`{"id":"i1","type":"t","attributes":{"s":"v","n":7},"relationships":{"one":{"data":{"type":"u","id":"a"}}}}`,
		`{"id":"i1","type":"t"}`,
		`{"id":"i1","type":"t","attributes":{"s":"v"},"attributes":{"n":1}}`,
		`{"id":"i1","type":"t","id":"i2"}`,
		`{"type":"t"}`, `{"id":"i1"}`, `{}`, `null`, `[]`, `"t"`, `5`, ``,
		`{"id":"i1","type":"t","attributes":null,"relationships":null}`,
		`{"id":"i1","type":"t","attributes":[],"relationships":{}}`,
		`{"id":"i1","type":"t","relationships":{"one":null}}`,
		`{"id":1,"type":"t"}`, `{"id":"i1","type":null}`,
	}
	prefixes := []string{"", " \n\t", "\xef\xbb\xbf", "x", "{", "[", "\x00"}
	suffixes := []string{"", " \n", "}", ",", "x", "{}", " {}", "\x00", "]", "null", `{"id":"i9","type":"t"}`, "//c", "\n\n\x00"}
	core := cores[x.Choose(len(cores), "core")]
	payload := prefixes[x.Choose(len(prefixes), "prefix")] + core + suffixes[x.Choose(len(suffixes), "suffix")]
	trunc := x.Choose(3, "truncate")
	if trunc > 0 && len(payload) >= trunc {
		payload = payload[:len(payload)-trunc]
	}
	x.Render(fmt.Sprintf("%q", payload))
	x.R.Sample("framing", fmt.Sprintf("%q", payload))
	var ferr, perr error
	fp := Try(func() { _, ferr = j.UnmarshalResource([]byte(payload), schema) })
	pp := Try(func() { _, perr = j.UnmarshalPartialResource([]byte(payload), schema) })
	x.R.Add("transitions", 2)
	x.Observe(payload, fp, pp, ferr != nil, perr != nil)
	x.R.Mark("nontrivial", mc.Hash(payload, soft))
	sig := "C13:" + implName(soft) + ":framing"
	if pp != "" {
		x.Fail(sig+":panic", "UnmarshalPartialResource panicked on %q: %s", payload, pp)
		return
	}
	if fp != "" {
		return // C05's business
	}
	if (ferr == nil) != (perr == nil) {
		x.Fail(sig+":acceptance-differs", "payload %q: full unmarshal error=%v, partial unmarshal error=%v", payload, ferr, perr)
	}
}

func init() {
	Register(&Prop{
		ID: "C13",
		Rule: "Engine A, all choices Full, complete product: {soft,struct-backed} x 3 attributes each in {absent, valid, explicit null, wrong kind} x 2 relationships each in 14 forms x a second to-one relationship in 4 forms, plus a reduced product (1 attribute) with the partial call under every iteration order of one member map (deviation bound 1) (absent, {}, links only, meta only, data:null, identifier, data:[], list of 2, wrong kind, data+links, repeated id, identifiers without id, identifiers of another type) x {plain, unknown attribute, unknown relationship with/without data, unknown type, relationship member named after an attribute (3 forms), attribute member named after a relationship}. plus two schemas declaring a same-named type with the same field names and different definitions (4 x 4 kinds, both cardinalities, soft/struct), used alternately. plus framing: 18 cores (valid, repeated members, missing id/type, null/array/string/number/empty, null or ill-shaped attributes/relationships members) x 7 leading x 13 trailing byte strings (whitespace, BOM, NUL, second value, stray bracket, comment) x 3 truncations. Oracle: partial accepts iff full accepts; on acceptance Attrs()/Rels() = names present / names with a data member, definitions = schema's, values = full unmarshaling's, every other schema field reads nil. Non-trivial = accepted payload with a proper, non-empty subset of the fields",
		Harnesses: []Harness{{Name: "C13/payload", Body: c13Body}, {Name: "C13/member-order", Body: c13Order, Dev: func() int { return 1 }}, {Name: "C13/two-schemas", Body: c13TwoSchemas}, {Name: "C13/framing", Body: c13Framing}},
	})
}
