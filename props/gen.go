package props

import (
	"fmt"
	"math"
	"reflect"
	"runtime"
	"sort"
	"strings"
	"sync"
	"time"

	j "github.com/mfcochauxlaberge/jsonapi"
)

// ---------------------------------------------------------------------------
// attribute kinds

// Kind is one of the 28 attribute kinds.
type Kind struct {
	Type     int
	Nullable bool
}

func (k Kind) String() string { return j.GetAttrTypeString(k.Type, k.Nullable) }

// BaseTypes lists the 14 base kinds, simplest first.
var BaseTypes = []int{
	j.AttrTypeString, j.AttrTypeInt, j.AttrTypeInt8, j.AttrTypeInt16, j.AttrTypeInt32, j.AttrTypeInt64,
	j.AttrTypeUint, j.AttrTypeUint8, j.AttrTypeUint16, j.AttrTypeUint32, j.AttrTypeUint64,
	j.AttrTypeBool, j.AttrTypeTime, j.AttrTypeBytes,
}

// AllKinds lists the 28 kinds (non-nullable first).
func AllKinds() []Kind {
	var ks []Kind
	for _, n := range []bool{false, true} {
		for _, t := range BaseTypes {
			ks = append(ks, Kind{t, n})
		}
	}
	return ks
}

// GoType returns the Go type that holds a value of the kind.
func (k Kind) GoType() reflect.Type {
	var t reflect.Type
	switch k.Type {
	case j.AttrTypeString:
		t = reflect.TypeOf("")
	case j.AttrTypeInt:
		t = reflect.TypeOf(int(0))
	case j.AttrTypeInt8:
		t = reflect.TypeOf(int8(0))
	case j.AttrTypeInt16:
		t = reflect.TypeOf(int16(0))
	case j.AttrTypeInt32:
		t = reflect.TypeOf(int32(0))
	case j.AttrTypeInt64:
		t = reflect.TypeOf(int64(0))
	case j.AttrTypeUint:
		t = reflect.TypeOf(uint(0))
	case j.AttrTypeUint8:
		t = reflect.TypeOf(uint8(0))
	case j.AttrTypeUint16:
		t = reflect.TypeOf(uint16(0))
	case j.AttrTypeUint32:
		t = reflect.TypeOf(uint32(0))
	case j.AttrTypeUint64:
		t = reflect.TypeOf(uint64(0))
	case j.AttrTypeBool:
		t = reflect.TypeOf(false)
	case j.AttrTypeTime:
		t = reflect.TypeOf(time.Time{})
	case j.AttrTypeBytes:
		t = reflect.TypeOf([]byte{})
	default:
		panic("bad kind")
	}
	if k.Nullable {
		return reflect.PtrTo(t)
	}
	return t
}

// IntRange returns the inclusive range of an integer kind as float-free
// strings are not needed: min as int64 and max as uint64.
func (k Kind) IntRange() (min int64, max uint64, ok bool) {
	switch k.Type {
	case j.AttrTypeInt, j.AttrTypeInt64:
		return math.MinInt64, math.MaxInt64, true
	case j.AttrTypeInt8:
		return math.MinInt8, math.MaxInt8, true
	case j.AttrTypeInt16:
		return math.MinInt16, math.MaxInt16, true
	case j.AttrTypeInt32:
		return math.MinInt32, math.MaxInt32, true
	case j.AttrTypeUint, j.AttrTypeUint64:
		return 0, math.MaxUint64, true
	case j.AttrTypeUint8:
		return 0, math.MaxUint8, true
	case j.AttrTypeUint16:
		return 0, math.MaxUint16, true
	case j.AttrTypeUint32:
		return 0, math.MaxUint32, true
	}
	return 0, 0, false
}

func (k Kind) Signed() bool {
	switch k.Type {
	case j.AttrTypeInt, j.AttrTypeInt8, j.AttrTypeInt16, j.AttrTypeInt32, j.AttrTypeInt64:
		return true
	}
	return false
}

// ---------------------------------------------------------------------------
// value alphabets (base values, never nil; Ptr wraps them for nullable kinds)

var (
	longStr = strings.Repeat("x", 299) + "é"
	// StringAlphabet is ordered simplest first.
	StringAlphabet = []string{"", "a", "ab", "b", "a\x00b", "é", "日本", "<>&", "\"\\", " ", " x y ", "\t\n", longStr, "😀", "null", "1",
		// the TEXT backslash-u-0-0-3-e (not the character): breaks naive post-processing of escapes
		"C:\\users\\u003e \\u0026 \\u003c",
		// the replacement character as a character of its own (valid UTF-8), CR LF and lone CR
		"a\ufffdb", "line one\r\nline two\rthree\n\r"}

	utc      = time.UTC
	zPlus    = time.FixedZone("", 5*3600+30*60)
	zMinus   = time.FixedZone("", -11*3600)
	zPlus14  = time.FixedZone("", 14*3600)
	TimeAlph = []time.Time{
		time.Date(1, 1, 1, 0, 0, 0, 0, utc),
		time.Date(2020, 2, 29, 12, 30, 15, 0, utc),
		time.Date(2020, 2, 29, 12, 30, 15, 1, utc),
		time.Date(9999, 12, 31, 23, 59, 59, 999999999, utc),
		time.Date(2021, 6, 1, 1, 2, 3, 120000000, zPlus),
		time.Date(1999, 12, 31, 23, 59, 59, 999000, zMinus),
		time.Date(1970, 1, 1, 0, 0, 0, 0, zPlus14),
		time.Date(2, 1, 1, 0, 0, 0, 0, zMinus),
		// the last representable hours: any conversion to another zone leaves the 4-digit years
		time.Date(9999, 12, 31, 23, 30, 0, 0, zMinus),
		time.Date(1, 1, 1, 0, 30, 0, 0, zPlus14),
	}
	BytesAlph = [][]byte{{}, {0}, {1, 2}, {2, 1}, {1, 2, 3}, {255}, {1}, {1, 2, 3, 4}, {0, 0}, {250, 251, 252, 253, 254}}
)

// BaseValues returns the boundary alphabet of a base type as values of the
// base Go type. size limits the alphabet (0 = all).
func BaseValues(t int, size int) []any {
	var out []any
	add := func(vs ...any) { out = append(out, vs...) }
	switch t {
	case j.AttrTypeString:
		for _, s := range StringAlphabet {
			add(s)
		}
	case j.AttrTypeInt:
		add(int(0), int(1), int(-1), int(math.MaxInt64), int(math.MinInt64), int(math.MaxInt64-1), int(math.MinInt64+1), int(1<<53+1))
	case j.AttrTypeInt8:
		add(int8(0), int8(1), int8(-1), int8(math.MaxInt8), int8(math.MinInt8), int8(126), int8(-127))
	case j.AttrTypeInt16:
		add(int16(0), int16(1), int16(-1), int16(math.MaxInt16), int16(math.MinInt16), int16(32766), int16(-32767), int16(300))
	case j.AttrTypeInt32:
		add(int32(0), int32(1), int32(-1), int32(math.MaxInt32), int32(math.MinInt32), int32(math.MaxInt32-1), int32(math.MinInt32+1), int32(70000))
	case j.AttrTypeInt64:
		add(int64(0), int64(1), int64(-1), int64(math.MaxInt64), int64(math.MinInt64), int64(math.MaxInt64-1), int64(math.MinInt64+1), int64(1<<53+1), int64(-(1<<53)-1))
	case j.AttrTypeUint:
		add(uint(0), uint(1), uint(2), uint(math.MaxUint64), uint(1<<63), uint(1<<63-1), uint(math.MaxUint64-1), uint(1<<53+1))
	case j.AttrTypeUint8:
		add(uint8(0), uint8(1), uint8(2), uint8(255), uint8(254), uint8(128), uint8(127))
	case j.AttrTypeUint16:
		add(uint16(0), uint16(1), uint16(2), uint16(65535), uint16(65534), uint16(32768), uint16(256))
	case j.AttrTypeUint32:
		add(uint32(0), uint32(1), uint32(2), uint32(math.MaxUint32), uint32(math.MaxUint32-1), uint32(1<<31), uint32(70000))
	case j.AttrTypeUint64:
		add(uint64(0), uint64(1), uint64(2), uint64(math.MaxUint64), uint64(1<<63), uint64(1<<63-1), uint64(math.MaxUint64-1), uint64(1<<53+1))
	case j.AttrTypeBool:
		add(false, true)
	case j.AttrTypeTime:
		for _, v := range TimeAlph {
			add(v)
		}
	case j.AttrTypeBytes:
		for _, v := range BytesAlph {
			add(append([]byte{}, v...))
		}
	}
	if size > 0 && len(out) > size {
		out = out[:size]
	}
	return out
}

// Ptr returns a fresh pointer to a copy of base value v.
func Ptr(v any) any {
	p := reflect.New(reflect.TypeOf(v))
	p.Elem().Set(reflect.ValueOf(v))
	return p.Interface()
}

// CloneVal returns a deep copy of an attribute value (fresh slices/pointers).
func CloneVal(v any) any {
	switch v := v.(type) {
	case []byte:
		return append([]byte{}, v...)
	case *[]byte:
		if v == nil {
			return v
		}
		c := append([]byte{}, (*v)...)
		return &c
	case []string:
		return append([]string{}, v...)
	}
	rv := reflect.ValueOf(v)
	if rv.IsValid() && rv.Kind() == reflect.Ptr && !rv.IsNil() {
		p := reflect.New(rv.Type().Elem())
		p.Elem().Set(rv.Elem())
		return p.Interface()
	}
	return v
}

// Values returns fresh values of kind k: for nullable kinds a typed nil
// followed by pointers to the base alphabet.
func Values(k Kind, size int) []any {
	base := BaseValues(k.Type, size)
	if !k.Nullable {
		return base
	}
	out := []any{reflect.Zero(k.GoType()).Interface()}
	for _, b := range base {
		out = append(out, Ptr(b))
	}
	return out
}

// IsNilVal reports whether v is nil or a typed nil pointer.
func IsNilVal(v any) bool {
	if v == nil {
		return true
	}
	rv := reflect.ValueOf(v)
	return rv.Kind() == reflect.Ptr && rv.IsNil()
}

// Deref returns the base value behind a possibly-pointer attribute value.
func Deref(v any) any {
	rv := reflect.ValueOf(v)
	if rv.Kind() == reflect.Ptr {
		return rv.Elem().Interface()
	}
	return v
}

// ShowVal renders an attribute value for messages.
func ShowVal(v any) string {
	if v == nil {
		return "nil"
	}
	rv := reflect.ValueOf(v)
	if rv.Kind() == reflect.Ptr {
		if rv.IsNil() {
			return fmt.Sprintf("(%T)(nil)", v)
		}
		return "&" + ShowVal(rv.Elem().Interface())
	}
	switch v := v.(type) {
	case string:
		if len(v) > 40 {
			return fmt.Sprintf("%q...(%d bytes)", v[:20], len(v))
		}
		return fmt.Sprintf("%q", v)
	case time.Time:
		return v.Format(time.RFC3339Nano)
	case []byte:
		return fmt.Sprintf("bytes%v", []byte(v))
	}
	return fmt.Sprintf("%T(%v)", v, v)
}

// SameAttrValue is the C01 comparator for one attribute value: integers
// exactly, strings code point for code point, times as instants, byte strings
// by content (nil == empty), nil-ness preserved. Untyped nil == typed nil.
func SameAttrValue(a, b any) bool {
	an, bn := IsNilVal(a), IsNilVal(b)
	if an || bn {
		return an && bn
	}
	if reflect.TypeOf(a) != reflect.TypeOf(b) {
		return false
	}
	a, b = Deref(a), Deref(b)
	switch av := a.(type) {
	case time.Time:
		return av.Equal(b.(time.Time))
	case []byte:
		return string(av) == string(b.([]byte))
	}
	return a == b
}

// ---------------------------------------------------------------------------
// type descriptions realised as soft types and as run-time struct types

type AttrD struct {
	Name string
	K    Kind
}

type RelD struct {
	Name   string
	ToOne  bool
	Target string
	Inv    string // inverse name ("" = one-way)
}

type TypeD struct {
	Name  string
	Attrs []AttrD
	Rels  []RelD
	// IDPos: where the struct realisation declares its ID field: 0 first (the usual layout),
	// 1 after the attributes, 2 last
	IDPos int
}

func (d TypeD) key() string {
	var b strings.Builder
	b.WriteString(d.Name)
	fmt.Fprintf(&b, "@%d", d.IDPos)
	for _, a := range d.Attrs {
		fmt.Fprintf(&b, "|a:%s:%s", a.Name, a.K)
	}
	for _, r := range d.Rels {
		fmt.Fprintf(&b, "|r:%s:%v:%s:%s", r.Name, r.ToOne, r.Target, r.Inv)
	}
	return b.String()
}

// SoftType builds a fresh soft Type (NewFunc nil) for d.
func (d TypeD) SoftType() j.Type {
	t := j.Type{Name: d.Name, Attrs: map[string]j.Attr{}, Rels: map[string]j.Rel{}}
	for _, a := range d.Attrs {
		t.Attrs[a.Name] = j.Attr{Name: a.Name, Type: a.K.Type, Nullable: a.K.Nullable}
	}
	for _, r := range d.Rels {
		t.Rels[r.Name] = j.Rel{FromType: d.Name, FromName: r.Name, ToOne: r.ToOne, ToType: r.Target, ToName: r.Inv}
	}
	return t
}

var (
	structMu    sync.Mutex
	structCache = map[string]reflect.Type{}
)

// StructType returns a run-time struct type declaring d through tags.
func (d TypeD) StructType() reflect.Type {
	structMu.Lock()
	defer structMu.Unlock()
	if t, ok := structCache[d.key()]; ok {
		return t
	}
	idField := reflect.StructField{
		Name: "ID", Type: reflect.TypeOf(""),
		Tag: reflect.StructTag(fmt.Sprintf(`json:"id" api:%q`, d.Name)),
	}
	var fields []reflect.StructField
	if d.IDPos == 0 {
		fields = append(fields, idField)
	}
	for i, a := range d.Attrs {
		fields = append(fields, reflect.StructField{
			Name: fmt.Sprintf("A%d", i), Type: a.K.GoType(),
			Tag: reflect.StructTag(fmt.Sprintf(`json:%q api:"attr"`, a.Name)),
		})
	}
	if d.IDPos == 1 {
		fields = append(fields, idField)
	}
	for i, r := range d.Rels {
		tag := "rel," + r.Target
		if r.Inv != "" {
			tag += "," + r.Inv
		}
		var ft reflect.Type = reflect.TypeOf("")
		if !r.ToOne {
			ft = reflect.TypeOf([]string{})
		}
		fields = append(fields, reflect.StructField{
			Name: fmt.Sprintf("R%d", i), Type: ft,
			Tag: reflect.StructTag(fmt.Sprintf(`json:%q api:%q`, r.Name, tag)),
		})
	}
	if d.IDPos == 2 {
		fields = append(fields, idField)
	}
	t := reflect.StructOf(fields)
	structCache[d.key()] = t
	return t
}

// StructBuiltType builds the jsonapi Type of the struct realisation.
func (d TypeD) StructBuiltType() j.Type {
	return j.MustBuildType(reflect.New(d.StructType()).Interface())
}

// NewRes returns a fresh zero resource of d, soft or struct-backed.
func (d TypeD) NewRes(soft bool) j.Resource {
	if soft {
		t := d.SoftType()
		return &j.SoftResource{Type: &t}
	}
	return j.Wrap(reflect.New(d.StructType()).Interface())
}

// Type returns the schema type for the chosen realisation.
func (d TypeD) Type(soft bool) j.Type {
	if soft {
		return d.SoftType()
	}
	return d.StructBuiltType()
}

// FixFromOne fills in FromOne of every two-way relationship from its inverse
// (as the repository's own mock schema does) so that Check passes.
func FixFromOne(s *j.Schema) {
	for t := range s.Types {
		names := make([]string, 0, len(s.Types[t].Rels))
		for n := range s.Types[t].Rels {
			names = append(names, n)
		}
		sort.Strings(names)
		for _, n := range names {
			rel := s.Types[t].Rels[n]
			if rel.ToName == "" {
				continue
			}
			inv := s.GetType(rel.ToType)
			rel.FromOne = inv.Rels[rel.ToName].ToOne
			s.Types[t].Rels[n] = rel
		}
	}
}

// Try runs f and converts a panic into a string ("" = no panic).
func Try(f func()) (panicked string) {
	defer func() {
		if r := recover(); r != nil {
			panicked = fmt.Sprint(r)
			if panicked == "" {
				panicked = "panic"
			}
		}
	}()
	f()
	return ""
}

// SortedKeys returns the sorted keys of a string-keyed map.
func SortedKeys[V any](m map[string]V) []string {
	ks := make([]string, 0, len(m))
	for k := range m {
		ks = append(ks, k)
	}
	sort.Strings(ks)
	return ks
}

// TrySite runs f; on a panic it returns the message and the innermost frame of
// package jsonapi on the panicking stack (function name only: line numbers of
// the instrumented copy are meaningless).
func TrySite(f func()) (msg, site string) {
	defer func() {
		if r := recover(); r != nil {
			msg = fmt.Sprint(r)
			if msg == "" {
				msg = "panic"
			}
			site = "unknown"
			pcs := make([]uintptr, 64)
			n := runtime.Callers(2, pcs)
			frames := runtime.CallersFrames(pcs[:n])
			for {
				fr, more := frames.Next()
				if i := strings.Index(fr.Function, "mfcochauxlaberge/jsonapi."); i >= 0 && !strings.Contains(fr.Function, ".mc") {
					site = fr.Function[i+len("mfcochauxlaberge/jsonapi."):]
					break
				}
				if !more {
					break
				}
			}
		}
	}()
	f()
	return "", ""
}

// Slug shortens a panic message into a signature component (digits -> N).
func Slug(s string) string {
	var b strings.Builder
	for _, c := range s {
		switch {
		case c >= '0' && c <= '9':
			if !strings.HasSuffix(b.String(), "N") {
				b.WriteByte('N')
			}
		case c >= 'a' && c <= 'z', c >= 'A' && c <= 'Z':
			b.WriteRune(c)
		default:
			if !strings.HasSuffix(b.String(), "-") {
				b.WriteByte('-')
			}
		}
		if b.Len() >= 60 {
			break
		}
	}
	return strings.Trim(b.String(), "-")
}

// Slug2 is Slug of the first two words of a message.
func Slug2(s string) string {
	w := strings.Fields(s)
	if len(w) > 2 {
		w = w[:2]
	}
	return Slug(strings.Join(w, " "))
}
