package props

import (
	"fmt"
	"math"
	"reflect"
	"strings"

	j "github.com/mfcochauxlaberge/jsonapi"

	"verif/mc"
)

// C09 — Range returns exactly the selected, filtered, sorted page.

var c09Impls = []string{"SoftCollection", "WrapperCollection", "Resources(soft)", "Resources(wrapped)"}

func c09TypeD(k Kind) TypeD {
	return TypeD{Name: "t", Attrs: []AttrD{{"k", k}, {"s", kStr}}}
}

type c09Item struct {
	id string
	k  any // nil for nil nullable
	s  string
}

func c09Collection(impl int, d TypeD, items []c09Item) j.Collection {
	soft := impl == 0 || impl == 2
	mk := func(it c09Item) j.Resource {
		r := d.NewRes(soft)
		r.Set("id", it.id)
		if it.k != nil {
			r.Set("k", CloneVal(it.k))
		}
		r.Set("s", it.s)
		return r
	}
	switch impl {
	case 0:
		t := d.SoftType()
		c := &j.SoftCollection{}
		c.SetType(&t)
		for _, it := range items {
			c.Add(mk(it))
		}
		return c
	case 1:
		c := j.WrapCollection(d.NewRes(false))
		for _, it := range items {
			c.Add(mk(it))
		}
		return c
	default:
		c := &j.Resources{}
		for _, it := range items {
			c.Add(mk(it))
		}
		return c
	}
}

// cmpItems is the reference comparator: per rule, nil before non-nil, natural
// order of the kind, '-' reverses, later rules break ties.
func cmpItems(a, b c09Item, rules []string) int {
	if len(rules) == 0 {
		rules = []string{"id"}
	}
	for _, r := range rules {
		inv := strings.HasPrefix(r, "-")
		name := strings.TrimPrefix(r, "-")
		c := 0
		switch name {
		case "id":
			c = strings.Compare(a.id, b.id)
		case "s":
			c = strings.Compare(a.s, b.s)
		case "k":
			an, bn := a.k == nil, b.k == nil
			switch {
			case an && bn:
				c = 0
			case an:
				c = -1
			case bn:
				c = 1
			default:
				x, y := Deref(a.k), Deref(b.k)
				if xb, ok := x.(bool); ok {
					yb := y.(bool)
					switch {
					case xb == yb:
						c = 0
					case !xb:
						c = -1
					default:
						c = 1
					}
				} else {
					c, _ = refCmp(x, y)
				}
			}
		}
		if inv {
			c = -c
		}
		if c != 0 {
			return c
		}
	}
	return 0
}

func rulesHaveID(rules []string) bool {
	if len(rules) == 0 {
		return true
	}
	for _, r := range rules {
		if strings.TrimPrefix(r, "-") == "id" {
			return true
		}
	}
	return false
}

func idsOf(c j.Collection) []string {
	out := []string{}
	for i := 0; i < c.Len(); i++ {
		id, _ := c.At(i).Get("id").(string)
		out = append(out, id)
	}
	return out
}

// refMatch is the reference select + filter.
func refMatch(items []c09Item, ids []string, keep func(c09Item) bool) []c09Item {
	var out []c09Item
	for _, it := range items {
		if len(ids) > 0 {
			found := false
			for _, id := range ids {
				if id == it.id {
					found = true
				}
			}
			if !found {
				continue
			}
		}
		if keep != nil && !keep(it) {
			continue
		}
		out = append(out, it)
	}
	return out
}

func refSort(items []c09Item, rules []string) []c09Item {
	out := append([]c09Item{}, items...)
	for i := 1; i < len(out); i++ {
		for k := i; k > 0 && cmpItems(out[k], out[k-1], rules) < 0; k-- {
			out[k], out[k-1] = out[k-1], out[k]
		}
	}
	return out
}

var c09RuleAtoms = []string{"k", "-k", "s", "id", "-id"}

func c09RuleLists() [][]string {
	lists := [][]string{{}}
	for _, a := range c09RuleAtoms {
		lists = append(lists, []string{a})
	}
	for _, a := range c09RuleAtoms {
		for _, b := range c09RuleAtoms {
			lists = append(lists, []string{a, b})
		}
	}
	return lists
}

func permutations(n int) [][]int {
	var out [][]int
	var rec func(cur, rest []int)
	rec = func(cur, rest []int) {
		if len(rest) == 0 {
			out = append(out, append([]int{}, cur...))
			return
		}
		for i := range rest {
			nr := append(append([]int{}, rest[:i]...), rest[i+1:]...)
			rec(append(cur, rest[i]), nr)
		}
	}
	idx := make([]int, n)
	for i := range idx {
		idx[i] = i
	}
	rec(nil, idx)
	return out
}

// c09Sort: every kind x implementation x value assignment x rule list x initial order
func c09Sort(x *mc.Exec) {
	kinds := AllKinds()
	k := kinds[x.Choose(len(kinds), "kind")]
	impl := x.Choose(len(c09Impls), "implementation")
	n := 3
	if Thorough() {
		n = 4
	}
	// 3-value alphabet of the kind (nil first for nullable kinds)
	var alpha []any
	base := BaseValues(k.Type, 0)
	switch {
	case k.Type == j.AttrTypeBool:
		alpha = []any{false, true}
	case k.Type == j.AttrTypeUint64 || k.Type == j.AttrTypeUint:
		// 2^53 and 2^53+1 are one float64; 1, MaxUint64, 2^63
		alpha = []any{reflect.ValueOf(uint64(1 << 53)).Convert(reflect.TypeOf(base[0])).Interface(), base[7], base[1], base[3], base[4]}
	case k.Type == j.AttrTypeInt64 || k.Type == j.AttrTypeInt:
		// 2^53 and 2^53+1 are one float64; -1, MaxInt64, MaxInt64-1
		alpha = []any{reflect.ValueOf(int64(1 << 53)).Convert(reflect.TypeOf(base[0])).Interface(), base[7], base[2], base[3], base[5]}
	case k.Type == j.AttrTypeBytes:
		alpha = []any{[]byte{1, 2}, []byte{2, 1}, []byte{1, 2, 3}}
	case k.Type == j.AttrTypeString:
		alpha = []any{"a", "ab", "b"}
	case k.Type == j.AttrTypeTime:
		// the same instant in two zones must tie; a later instant
		alpha = []any{TimeAlph[4], TimeAlph[4].UTC(), TimeAlph[4].Add(1)}
	default:
		alpha = []any{base[2%len(base)], base[0], base[3%len(base)]} // -1 (or 2), 0, max
	}
	if k.Nullable {
		na := []any{nil}
		for _, v := range alpha[:2] {
			na = append(na, Ptr(v))
		}
		alpha = na
	}
	ids := []string{"a", "b", "c", "d"}[:n]
	ss := []string{"m", "m", "z", "a"}[:n]
	items := make([]c09Item, n)
	desc := ""
	for i := 0; i < n; i++ {
		v := alpha[x.Choose(len(alpha), "value of "+ids[i])]
		items[i] = c09Item{id: ids[i], k: v, s: ss[i]}
		desc += fmt.Sprintf("%s:%s ", ids[i], ShowVal(v))
	}
	lists := c09RuleLists()
	rules := lists[x.Choose(len(lists), "rules")]
	d := c09TypeD(k)
	x.Render(fmt.Sprintf("%s kind %s values {%s} rules %v", c09Impls[impl], k, desc, rules))
	x.R.Sample("sort", fmt.Sprintf("%s kind %s values {%s} rules %v, all %d initial orders, pages of 1,2,%d", c09Impls[impl], k, desc, rules, len(permutations(n)), n))
	x.R.Mark("nontrivial", mc.Hash(x.Choices()))

	want := refSort(items, rules)
	wantIDs := []string{}
	for _, it := range want {
		wantIDs = append(wantIDs, it.id)
	}
	byID := map[string]c09Item{}
	for _, it := range items {
		byID[it.id] = it
	}
	sigBase := fmt.Sprintf("C09:sort:%s:%s", c09Impls[impl], k)
	for _, order := range permutations(n) {
		init := make([]c09Item, n)
		for i, p := range order {
			init[i] = items[p]
		}
		for _, size := range []uint{1, 2, uint(n)} {
			col := c09Collection(impl, d, init)
			before := idsOf(col)
			var got []string
			failed := false
			for num := uint(0); num*size < uint(n)+size; num++ {
				var page j.Collection
				pmsg, site := TrySite(func() { page = j.Range(col, nil, nil, append([]string{}, rules...), size, num) })
				x.R.Add("transitions", 1)
				if pmsg != "" {
					x.Fail(sigBase+":panic:"+site, "Range panicked in %s: %s [initial order %v, rules %v, size %d, page %d]", site, pmsg, idsOfItems(init), rules, size, num)
					failed = true
					break
				}
				if page == nil || reflect.ValueOf(page).IsNil() {
					x.Fail(sigBase+":nil-result", "Range returned nil [rules %v size %d page %d]", rules, size, num)
					failed = true
					break
				}
				wantLen := 0
				if int(num*size) < n {
					wantLen = n - int(num*size)
					if wantLen > int(size) {
						wantLen = int(size)
					}
				}
				if page.Len() != wantLen {
					x.Fail(sigBase+":page-length", "page %d of size %d has %d members, expected %d [initial order %v, rules %v]", num, size, page.Len(), wantLen, idsOfItems(init), rules)
					failed = true
					break
				}
				got = append(got, idsOf(page)...)
			}
			if failed {
				return
			}
			if after := idsOf(col); !reflect.DeepEqual(after, before) {
				x.Fail(sigBase+":input-reordered", "Range changed the input collection from %v to %v [rules %v]", before, after, rules)
				return
			}
			// partition: a permutation of all ids
			if !sameSet(got, ids) || len(got) != n {
				x.Fail(sigBase+":not-a-partition", "pages of size %d concatenate to %v, not a permutation of %v [initial order %v, rules %v]", size, got, ids, idsOfItems(init), rules)
				return
			}
			if rulesHaveID(rules) {
				if !reflect.DeepEqual(got, wantIDs) {
					x.Fail(fmt.Sprintf("C09:sort:%s:order", k), "%s, values {%s}: rules %v give %v, the reference order is %v [initial order %v, page size %d]", c09Impls[impl], desc, rules, got, wantIDs, idsOfItems(init), size)
					return
				}
			} else {
				for i := 1; i < len(got); i++ {
					if cmpItems(byID[got[i-1]], byID[got[i]], rules) > 0 {
						x.Fail(fmt.Sprintf("C09:sort:%s:order", k), "%s, values {%s}: rules %v give %v, where %s comes before %s against the rules [initial order %v, page size %d]", c09Impls[impl], desc, rules, got, got[i-1], got[i], idsOfItems(init), size)
						return
					}
				}
			}
		}
	}
	x.Observe(desc, fmt.Sprint(rules), fmt.Sprint(wantIDs))
}

func idsOfItems(items []c09Item) []string {
	out := []string{}
	for _, it := range items {
		out = append(out, it.id)
	}
	return out
}

// c09Page: ID selection x filter x page geometry
func c09Page(x *mc.Exec) {
	impl := x.Choose(len(c09Impls), "implementation")
	n := x.Choose(5, "n")
	k := kInt
	d := c09TypeD(k)
	all := []c09Item{{"a", 3, "m"}, {"b", 1, "m"}, {"c", 2, "z"}, {"d", 1, "a"}}[:n]
	mask := x.Choose(1<<uint(n)+1, "id subset")
	var sel []string
	if mask < 1<<uint(n) {
		for i := 0; i < n; i++ {
			if mask&(1<<uint(i)) != 0 {
				sel = append(sel, all[i].id)
			}
		}
	} else if x.Bool("long id list") {
		// 20 entries: every id several times, in no particular order, plus unknown ones
		for i := 0; i < 20; i++ {
			sel = append(sel, []string{"b", "zz", "a", "d", "b", "c", "yy"}[i%7])
		}
	} else {
		sel = []string{"zz", "b", "b"} // unknown and repeated ids
	}
	fi := x.Choose(8, "filter")
	var filter *j.Filter
	var keep func(c09Item) bool
	switch fi {
	case 1:
		filter = &j.Filter{Field: "k", Op: "=", Val: 1}
		keep = func(it c09Item) bool { return it.k == 1 }
	case 2:
		filter = &j.Filter{Field: "k", Op: "<", Val: 3}
		keep = func(it c09Item) bool { return it.k.(int) < 3 }
	case 3:
		filter = &j.Filter{Op: "or", Val: []*j.Filter{{Field: "k", Op: "=", Val: 3}, {Field: "s", Op: "=", Val: "a"}}}
		keep = func(it c09Item) bool { return it.k == 3 || it.s == "a" }
	case 4:
		filter = &j.Filter{Op: "and", Val: []*j.Filter{}}
		keep = func(it c09Item) bool { return true }
	case 5:
		// an empty "or" allows nothing
		filter = &j.Filter{Op: "or", Val: []*j.Filter{}}
		keep = func(it c09Item) bool { return false }
	case 6:
		// an unknown operator allows nothing
		filter = &j.Filter{Field: "k", Op: "~", Val: 1}
		keep = func(it c09Item) bool { return false }
	case 7:
		filter = &j.Filter{Op: "and", Val: []*j.Filter{{Op: "or", Val: []*j.Filter{}}, {Field: "k", Op: "=", Val: 1}}}
		keep = func(it c09Item) bool { return false }
	}
	rules := [][]string{{}, {"k", "id"}, {"-s", "-id"}, {"k"}}[x.Choose(4, "rules")]
	sizes := []uint{0, 1, 2, uint(n), uint(n) + 1, math.MaxInt64, 1 << 63, math.MaxUint64, 3}
	size := sizes[x.Choose(len(sizes), "size")]
	nums := []uint{0, 1, 2, uint(n), 5}
	num := nums[x.Choose(len(nums), "number")]
	if size != 0 && num > math.MaxInt64/size {
		return // number*size must stay below 2^63 (stated domain)
	}
	desc := fmt.Sprintf("%s n=%d ids=%v filter=%d rules=%v size=%d number=%d", c09Impls[impl], n, sel, fi, rules, size, num)
	x.Render(desc)
	x.R.Sample("page", desc)

	col := c09Collection(impl, d, all)
	before := idsOf(col)
	var page j.Collection
	pmsg, site := TrySite(func() { page = j.Range(col, append([]string{}, sel...), filter, append([]string{}, rules...), size, num) })
	x.R.Add("transitions", 1)
	x.Observe(desc, pmsg)
	sigBase := "C09:page:" + c09Impls[impl]
	if pmsg != "" {
		x.Fail(sigBase+":panic:"+site, "%s: Range panicked in %s: %s", desc, site, pmsg)
		return
	}
	if page == nil || reflect.ValueOf(page).IsNil() {
		x.Fail(sigBase+":nil-result", "%s: Range returned nil", desc)
		return
	}
	if after := idsOf(col); !reflect.DeepEqual(after, before) {
		x.Fail(sigBase+":input-changed", "%s: Range changed the input collection from %v to %v", desc, before, after)
	}
	match := refSort(refMatch(all, sel, keep), rules)
	lo := uint64(num) * uint64(size)
	var want []string
	for i, it := range match {
		if uint64(i) >= lo && uint64(i)-lo < uint64(size) {
			want = append(want, it.id)
		}
	}
	got := idsOf(page)
	if len(want) > 0 && len(want) < len(match) {
		x.R.Mark("nontrivial", mc.Hash(desc))
	}
	sizeClass := "small-size"
	if size > math.MaxInt32 {
		sizeClass = "huge-size"
	}
	if rulesHaveID(rules) {
		if !(len(got) == 0 && len(want) == 0) && !reflect.DeepEqual(got, want) {
			x.Fail(sigBase+":content:"+sizeClass, "%s: Range returned %v, the reference page is %v (matching, sorted: %v)", desc, got, want, idsOfItems(match))
		}
	} else if len(got) != len(want) {
		x.Fail(sigBase+":length:"+sizeClass, "%s: Range returned %v (%d members), the reference page has %d", desc, got, len(got), len(want))
	} else {
		in := map[string]bool{}
		for _, it := range match {
			in[it.id] = true
		}
		for _, id := range got {
			if !in[id] {
				x.Fail(sigBase+":content:"+sizeClass, "%s: Range returned %v; %q is not selected/allowed", desc, got, id)
			}
		}
	}
}

// c09Large: 14 resources (sort.Sort switches algorithm above 12 elements, so a
// comparator that is not a strict weak ordering behaves differently there),
// values assigned by pattern, 18 structured initial orders.
func c09Large(x *mc.Exec) {
	kinds := AllKinds()
	k := kinds[x.Choose(len(kinds), "kind")]
	impl := x.Choose(len(c09Impls), "implementation")
	lists := c09RuleLists()
	rules := lists[x.Choose(len(lists), "rules")]
	const n = 14
	base := BaseValues(k.Type, 0)
	var alpha []any
	switch {
	case k.Type == j.AttrTypeBool:
		alpha = []any{false, true, true}
	case len(base) >= 4:
		alpha = []any{base[0], base[1], base[3]}
	default:
		alpha = []any{base[0], base[1], base[1]}
	}
	if k.Type == j.AttrTypeTime {
		alpha = []any{TimeAlph[4], TimeAlph[4].UTC(), TimeAlph[4].Add(1)}
	}
	items := make([]c09Item, n)
	for i := range items {
		var v any = alpha[(i*7)%3]
		if k.Nullable {
			if i%4 == 0 {
				v = nil
			} else {
				v = Ptr(v)
			}
		}
		items[i] = c09Item{id: fmt.Sprintf("r%02d", i), k: v, s: []string{"m", "z", "m", "a"}[i%4]}
	}
	d := c09TypeD(k)
	want := refSort(items, rules)
	var wantIDs []string
	byID := map[string]c09Item{}
	for _, it := range want {
		wantIDs = append(wantIDs, it.id)
	}
	for _, it := range items {
		byID[it.id] = it
	}
	var orders [][]int
	id := make([]int, n)
	for i := range id {
		id[i] = i
	}
	rev := make([]int, n)
	for i := range rev {
		rev[i] = n - 1 - i
	}
	orders = append(orders, id, rev)
	for r := 1; r < n; r++ {
		o := make([]int, n)
		for i := range o {
			o[i] = (i + r) % n
		}
		orders = append(orders, o)
	}
	eo := []int{}
	for i := 0; i < n; i += 2 {
		eo = append(eo, i)
	}
	for i := 1; i < n; i += 2 {
		eo = append(eo, i)
	}
	orders = append(orders, eo)
	x.Render(fmt.Sprintf("%s kind %s rules %v, 14 resources, %d initial orders", c09Impls[impl], k, rules, len(orders)))
	x.R.Mark("nontrivial", mc.Hash(x.Choices()))
	for _, order := range orders {
		init := make([]c09Item, n)
		for i, p := range order {
			init[i] = items[p]
		}
		col := c09Collection(impl, d, init)
		var page j.Collection
		pmsg, site := TrySite(func() { page = j.Range(col, nil, nil, append([]string{}, rules...), 100, 0) })
		x.R.Add("transitions", 1)
		if pmsg != "" {
			x.Fail(fmt.Sprintf("C09:large:%s:panic:%s", k, site), "Range over 14 resources panicked in %s: %s (rules %v)", site, pmsg, rules)
			return
		}
		got := idsOf(page)
		if len(got) != n {
			x.Fail(fmt.Sprintf("C09:large:%s:length", k), "Range over 14 resources returned %d (rules %v)", len(got), rules)
			return
		}
		if rulesHaveID(rules) {
			if !reflect.DeepEqual(got, wantIDs) {
				x.Fail(fmt.Sprintf("C09:sort:%s:order", k), "%s, 14 resources, rules %v give %v, the reference order is %v [initial order %v]", c09Impls[impl], rules, got, wantIDs, order)
				return
			}
		} else {
			for i := 1; i < len(got); i++ {
				if cmpItems(byID[got[i-1]], byID[got[i]], rules) > 0 {
					x.Fail(fmt.Sprintf("C09:sort:%s:order", k), "%s, 14 resources, rules %v give %v, where %s comes before %s against the rules", c09Impls[impl], rules, got, got[i-1], got[i])
					return
				}
			}
		}
	}
}

// c09IDs: listed ids select by exact string comparison: the empty id, ids with leading / trailing
// blanks and their trimmed twins are different ids.
func c09IDs(x *mc.Exec) {
	impl := x.Choose(len(c09Impls), "implementation")
	d := c09TypeD(kInt)
	items := []c09Item{{"", 1, "m"}, {" a", 2, "m"}, {"a", 3, "z"}, {"a ", 4, "a"}, {"b", 5, "q"}, {"\ta\n", 6, "q"}}
	lists := [][]string{{""}, {" a"}, {"a"}, {"a ", " a"}, {"", "b"}, {" "}, {"  a"}, {"\ta\n", "a"}, {"", " ", "b "}, {"A"}}
	sel := lists[x.Choose(len(lists), "listed ids")]
	col := c09Collection(impl, d, items)
	var page j.Collection
	p := Try(func() { page = j.Range(col, append([]string{}, sel...), nil, []string{"k"}, 100, 0) })
	x.R.Add("transitions", 1)
	desc := fmt.Sprintf("%s: ids %q listed over a collection with ids %q", c09Impls[impl], sel, []string{"", " a", "a", "a ", "b", "\ta\n"})
	x.Render(desc)
	x.R.Mark("nontrivial", mc.Hash(desc))
	if p != "" || page == nil {
		x.Fail("C09:ids:panic", "%s: Range panicked: %s", desc, p)
		return
	}
	var want []string
	for _, it := range items {
		for _, id := range sel {
			if id == it.id {
				want = append(want, it.id)
				break
			}
		}
	}
	got := idsOf(page)
	if !(len(got) == 0 && len(want) == 0) && !reflect.DeepEqual(got, want) {
		x.Fail("C09:ids:selection", "%s: Range returns %q, the listed ids select %q", desc, got, want)
	}
}

// c09Sequence: results are retained across several Range calls and read only at
// the end: a page handed out earlier must not be changed by later calls (a
// recycled working buffer would do that).
func c09Sequence(x *mc.Exec) {
	impl := x.Choose(len(c09Impls), "implementation")
	d := c09TypeD(kInt)
	itemsA := []c09Item{{"a", 3, "m"}, {"b", 1, "m"}, {"c", 2, "z"}, {"d", 1, "a"}, {"e", 0, "q"}}
	itemsB := []c09Item{{"b0", 9, "m"}, {"b1", 8, "m"}, {"b2", 7, "z"}, {"b3", 6, "a"}}
	// ids made of digits (and one that is not): ids are strings, ordered as strings
	itemsN := []c09Item{{"9", 1, "m"}, {"10", 1, "m"}, {"100", 2, "z"}, {"2", 1, "a"}, {"a1", 0, "q"}, {"010", 1, "m"}}
	type call struct {
		name  string
		items []c09Item
		rules []string
		size  uint
		num   uint
		// given: the slice actually handed to Range when it is a part of a longer list the caller
		// keeps (nil = a private copy of rules)
		given []string
	}
	// the caller's own rule list, of which it also passes prefixes: Range must leave it alone
	shared := []string{"k", "s", "id"}
	menu := []call{
		{"A by the first rule of the caller's list [k s id]", itemsA, []string{"k"}, 10, 0, shared[:1]},
		{"A by the caller's whole list [k s id]", itemsA, []string{"k", "s", "id"}, 10, 0, shared[:3]},
		{"A page 1 of 2", itemsA, []string{"k", "id"}, 2, 1, nil},
		{"A whole", itemsA, []string{"-k", "id"}, 10, 0, nil},
		{"B whole reversed", itemsB, []string{"-id"}, 4, 0, nil},
		{"B page 0 of 2", itemsB, []string{"k"}, 2, 0, nil},
		{"A page 0 of 3", itemsA, []string{"s", "id"}, 2, 0, nil},
		{"B empty page", itemsB, nil, 3, 5, nil},
		{"N whole by id", itemsN, []string{"id"}, 10, 0, nil},
		{"N by k then -id, page 1 of 2", itemsN, []string{"k", "-id"}, 2, 1, nil},
	}
	colA, colB, colN := c09Collection(impl, d, itemsA), c09Collection(impl, d, itemsB), c09Collection(impl, d, itemsN)
	var pages []j.Collection
	var wants [][]string
	desc := c09Impls[impl] + ":"
	for i := 0; i < 3; i++ {
		ci := x.Choose(len(menu)+1, "call")
		if ci == len(menu) {
			// between two calls a member of collection A changes (Set through the collection's
			// own element): the next call sees the collection as it is now
			for k := 0; k < colA.Len(); k++ {
				if colA.At(k).Get("id") == "b" {
					colA.At(k).Set("k", 99)
					colA.At(k).Set("s", "zz")
				}
			}
			itemsA[1].k, itemsA[1].s = 99, "zz"
			desc += " b.k=99 b.s=zz in collection A;"
			continue
		}
		c := menu[ci]
		col := colA
		if &c.items[0] == &itemsB[0] {
			col = colB
		}
		if &c.items[0] == &itemsN[0] {
			col = colN
		}
		var page j.Collection
		arg := append([]string{}, c.rules...)
		if c.given != nil {
			arg = c.given
		}
		if p := Try(func() { page = j.Range(col, nil, nil, arg, c.size, c.num) }); p != "" {
			x.Fail("C09:sequence:panic", "%s then %s panicked: %s", desc, c.name, p)
			return
		}
		x.R.Add("transitions", 1)
		sorted := refSort(c.items, c.rules)
		var want []string
		for k, it := range sorted {
			if uint(k) >= c.num*c.size && uint(k) < (c.num+1)*c.size {
				want = append(want, it.id)
			}
		}
		pages, wants = append(pages, page), append(wants, want)
		desc += " " + c.name + ";"
	}
	x.Render(desc)
	x.R.Sample("sequence", desc)
	x.R.Mark("nontrivial", mc.Hash(desc))
	for i := range pages {
		got := idsOf(pages[i])
		if !(len(got) == 0 && len(wants[i]) == 0) && !reflect.DeepEqual(got, wants[i]) {
			x.Fail("C09:sequence:earlier-result-changed", "%s read after all three calls, the result of call %d is %v, it must be %v", desc, i+1, got, wants[i])
			return
		}
	}
}

func init() {
	Register(&Prop{
		ID: "C09",
		Rule: "Engine A, all choices Full: (a) 28 kinds x 4 collection implementations (SoftCollection, WrapperCollection, Resources of soft / of wrapped resources) x every assignment of a 3-value alphabet of the kind (incl. nil for nullable kinds, values above 2^63 for uint64, for the 64-bit kinds a 5-value alphabet with 2^53 / 2^53+1 and MaxInt64 / MaxInt64-1, which collide as float64, byte strings [1 2]/[2 1]/[1 2 3], ties) to 3 (thorough 4) resources x all 31 rule lists of length <= 2 over {k,-k,s,id,-id} (incl. the empty list) and, inside each case, ALL initial orders of the collection and page sizes 1, 2, n with every page number; (b) 4 implementations x n in 0..4 x every ID subset (+ unknown/repeated ids) x 8 filters (incl. the empty and / or groups and an unknown operator) x 4 rule lists x 9 sizes (0,1,2,n,n+1,2^63-1,2^63,2^64-1,3) x 5 page numbers with number*size < 2^63. (d) 14-resource collections (beyond the 12-element insertion-sort threshold of sort.Sort) for 28 kinds x 4 implementations x 31 rule lists x 18 structured initial orders; (e) 10 id lists with empty, blank-padded and case-twin ids over a collection holding such ids; (c) every sequence of 3 steps, each a Range call from a menu of 10 or a change of one member's values, (three collections, one with ids made of digits, several page geometries, rule lists that are prefixes of one list the caller keeps) with all results retained and read only at the end. Oracle: independent select / filter / comparator (nil first, '-' reverses, later rules break ties) / slice; exact ID sequence and independence from the initial order when the rules contain id, otherwise sortedness + partition + page lengths; result non-nil, no panic, input collection unchanged. Non-trivial = every sort case; page cases that are neither empty nor complete",
		Harnesses: []Harness{
			{Name: "C09/sort", Body: c09Sort},
			{Name: "C09/page", Body: c09Page},
			{Name: "C09/sequence", Body: c09Sequence},
			{Name: "C09/ids", Body: c09IDs},
			{Name: "C09/large", Body: c09Large},
		},
	})
}
