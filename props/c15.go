package props

import (
	"fmt"
	"reflect"

	j "github.com/mfcochauxlaberge/jsonapi"

	"verif/mc"
)

// C15 — Schema.Check finds every dangling or unreciprocated relationship.

func c15Slot(x *mc.Exec, owner, other, name string, targets []string) (j.Rel, bool, string) {
	n := 1 + len(targets)*3*3
	c := x.Choose(n, "slot "+owner+"."+name)
	if c == 0 {
		return j.Rel{}, false, ""
	}
	c--
	target := targets[c%len(targets)]
	c /= len(targets)
	inv := []string{"", "x", "y"}[c%3]
	c /= 3
	from := owner
	switch c {
	case 1:
		from = other
	case 2:
		from = "" // a hand-declared relationship may leave it empty: not "its own type"
	}
	r := j.Rel{FromType: from, FromName: name, ToOne: true, ToType: target, ToName: inv}
	return r, true, fmt.Sprintf("%s.%s->%s inv=%q from=%s; ", owner, name, target, inv, from)
}

func c15Body(x *mc.Exec) {
	var typeNames []string
	targets := []string{"a", "b", "c"}
	if Thorough() {
		switch x.Choose(4, "types") {
		case 0:
			typeNames = []string{"a", "b"}
		case 1:
			typeNames = []string{"a"}
		case 2:
			typeNames = []string{"b", "a"}
		case 3:
			typeNames = []string{"a", "b", "d"}
			targets = []string{"a", "b", "c", "d"}
		}
	} else {
		switch x.Choose(3, "types") {
		case 0:
			typeNames = []string{"a", "b"}
		case 1:
			typeNames = []string{"a"}
		case 2:
			typeNames = []string{"b", "a"}
		}
	}
	// Rels maps built by hand may use keys that are not the relationship names
	byName := x.Choose(2, "map keys") == 0
	s := &j.Schema{}
	desc := fmt.Sprintf("types %v (keys by name: %v): ", typeNames, byName)
	type placed struct {
		owner string
		rel   j.Rel
	}
	var all []placed
	for ti, tn := range typeNames {
		other := typeNames[(ti+1)%len(typeNames)]
		if len(typeNames) == 1 {
			other = "b"
		}
		t := j.Type{Name: tn, Attrs: map[string]j.Attr{}, Rels: map[string]j.Rel{}}
		slots := []string{"x", "y"}
		if len(typeNames) == 3 && ti >= 1 {
			// three types: a has two slots, b and d one each (37^4 schemas)
			slots = []string{"x"}
		}
		for _, name := range slots {
			if r, ok, d := c15Slot(x, tn, other, name, targets); ok {
				key := name
				if !byName {
					key = map[string]string{"x": "k1", "y": "k0"}[name]
				}
				t.Rels[key] = r
				all = append(all, placed{tn, r})
				desc += d
			}
		}
		if err := s.AddType(t); err != nil {
			panic(err)
		}
	}
	x.Render(desc)

	// independent offender count
	has := map[string]bool{}
	for _, t := range typeNames {
		has[t] = true
	}
	offenders := 0
	for _, p := range all {
		r := p.rel
		off := false
		if !has[r.ToType] {
			off = true
		}
		if r.ToName != "" {
			if r.FromType != p.owner {
				off = true
			} else {
				found := false
				for _, q := range all {
					if q.owner == r.ToType && q.rel.FromName == r.ToName && q.rel.ToName == r.FromName {
						found = true
					}
				}
				if !found {
					off = true
				}
			}
		}
		if off {
			offenders++
		}
	}
	if offenders > 0 && offenders < len(all) {
		x.R.Mark("nontrivial", mc.Hash(desc))
	}
	x.R.Sample("schema", desc)

	before := mc.Snap(s)
	var errs []error
	var p string
	WithMapDev(x, func() { p = Try(func() { errs = s.Check() }) })
	x.R.Add("transitions", 1)
	x.Observe(desc, len(errs), p)
	switch {
	case p != "":
		x.Fail("C15:panic", "Check panicked on %s: %s", desc, p)
	case offenders == 0 && len(errs) != 0:
		x.Fail("C15:false-positive", "schema %s has no offending relationship but Check reports %v", desc, errs)
	case offenders > 0 && len(errs) == 0:
		x.Fail("C15:missed-all", "schema %s has %d offending relationship(s) but Check reports nothing", desc, offenders)
	case len(errs) < offenders:
		x.Fail("C15:missed-some", "schema %s has %d offending relationships but Check reports only %d: %v", desc, offenders, len(errs), errs)
	}
	if after := mc.Snap(s); after != before {
		x.Fail("C15:modified-schema", "Check modified the schema %s", desc)
	}
	if errs == nil && p == "" {
		// statement: returns an empty list; nil vs empty is not judged
		_ = errs
	}
}

// c15Incremental: the verdict is about the schema as it is NOW: the schema is
// built through the API step by step (including steps that make it incoherent
// and steps that repair it) with Check() called after every subset of the
// steps; the last Check() must agree with the Check() of an equal schema built
// in one go and with the offender count.
func c15Incremental(x *mc.Exec) {
	type step struct {
		name string
		do   func(s *j.Schema)
	}
	steps := []step{
		{"AddType(a)", func(s *j.Schema) { _ = s.AddType(j.Type{Name: "a"}) }},
		{"AddType(b)", func(s *j.Schema) { _ = s.AddType(j.Type{Name: "b"}) }},
		{"AddTwoWayRel(a.x<->b.y)", func(s *j.Schema) {
			_ = s.AddTwoWayRel(j.Rel{FromType: "a", FromName: "x", ToOne: true, ToType: "b", ToName: "y"})
		}},
		{"AddRel(a.z->c) dangling", func(s *j.Schema) { _ = s.AddRel("a", j.Rel{FromType: "a", FromName: "z", ToType: "c"}) }},
		{"AddType(c)", func(s *j.Schema) { _ = s.AddType(j.Type{Name: "c"}) }},
		{"RemoveRel(b.y)", func(s *j.Schema) { s.RemoveRel("b", "y") }},
		{"RemoveType(b)", func(s *j.Schema) { s.RemoveType("b") }},
	}
	n := 4
	if Thorough() {
		n = 5
	}
	var chosen []int
	live, desc := &j.Schema{}, ""
	for i := 0; i < n; i++ {
		k := x.Choose(len(steps), "step")
		chosen = append(chosen, k)
		steps[k].do(live)
		desc += steps[k].name + "; "
		if x.Bool("Check() in between") {
			if p := Try(func() { _ = live.Check() }); p != "" {
				x.Fail("C15:incremental:panic", "Check panicked after [%s]: %s", desc, p)
				return
			}
			desc += "Check(); "
			x.R.Add("transitions", 1)
		}
	}
	fresh := &j.Schema{}
	for _, k := range chosen {
		steps[k].do(fresh)
	}
	var got, want []error
	if p := Try(func() { got, want = live.Check(), fresh.Check() }); p != "" {
		x.Fail("C15:incremental:panic", "Check panicked after [%s]: %s", desc, p)
		return
	}
	x.R.Add("transitions", 2)
	x.Render(desc)
	x.R.Mark("nontrivial", mc.Hash(desc))
	x.R.Sample("incremental", desc)
	if len(got) != len(want) || fmt.Sprint(got) != fmt.Sprint(want) {
		// the order of the errors may follow map order; compare as multisets
		a, b := map[string]int{}, map[string]int{}
		for _, e := range got {
			a[e.Error()]++
		}
		for _, e := range want {
			b[e.Error()]++
		}
		if !reflect.DeepEqual(a, b) {
			x.Fail("C15:incremental:depends-on-history", "built as [%s] Check reports %v, an equal schema built without intermediate checks reports %v", desc, got, want)
			return
		}
	}
	// independent offender count on the final schema
	has := map[string]bool{}
	for _, t := range live.Types {
		has[t.Name] = true
	}
	offenders := 0
	for _, t := range live.Types {
		for _, r := range t.Rels {
			off := !has[r.ToType]
			if r.ToName != "" {
				if r.FromType != t.Name {
					off = true
				} else {
					found := false
					for _, q := range live.GetType(r.ToType).Rels {
						if q.FromName == r.ToName && q.ToName == r.FromName {
							found = true
						}
					}
					off = off || !found
				}
			}
			if off {
				offenders++
			}
		}
	}
	if (offenders == 0) != (len(got) == 0) || len(got) < offenders {
		x.Fail("C15:incremental:verdict", "after [%s] the schema has %d offending relationship(s), Check reports %v", desc, offenders, got)
	}
}

// c15Names: type and relationship names that contain separator characters, so
// that different (type, name, inverse) triples have the same concatenation
// (type "x"+name "x_q" against type "x_x"+name "q"): a lookup keyed by a joined
// string confuses them.
func c15Names(x *mc.Exec) {
	si := x.Choose(7, "separator")
	sep := []string{"_", ".", "-", "/", " ", "", ""}[si]
	types := []string{"a", "x", "x" + sep + "x"}
	names := []string{"p", "q", "x" + sep + "q"}
	targets := types
	if si == 6 {
		// letter case: relationship and type names that differ from others by case only, and
		// targets that do not exist although a type of the same letters does
		types = []string{"a", "x", "X"}
		names = []string{"p", "q", "P"}
		targets = []string{"a", "x", "X", "A"}
	}
	s := &j.Schema{}
	type placed struct {
		owner string
		rel   j.Rel
	}
	var all []placed
	desc := ""
	for _, tn := range types {
		t := j.Type{Name: tn, Attrs: map[string]j.Attr{}, Rels: map[string]j.Rel{}}
		c := x.Choose(1+len(names)*len(targets)*(1+len(names)), "relationship of "+tn)
		if c > 0 {
			c--
			from := names[c%len(names)]
			c /= len(names)
			to := targets[c%len(targets)]
			c /= len(targets)
			inv := ""
			if c > 0 {
				inv = names[c-1]
			}
			r := j.Rel{FromType: tn, FromName: from, ToOne: true, ToType: to, ToName: inv}
			t.Rels[from] = r
			all = append(all, placed{tn, r})
			desc += fmt.Sprintf("%q.%q->%q inv=%q; ", tn, from, to, inv)
		}
		if err := s.AddType(t); err != nil {
			panic(err)
		}
	}
	x.Render(desc)
	offenders := 0
	exists := map[string]bool{}
	for _, tn := range types {
		exists[tn] = true
	}
	for _, p := range all {
		if !exists[p.rel.ToType] {
			offenders++
			continue
		}
		if p.rel.ToName == "" {
			continue
		}
		found := false
		for _, q := range all {
			if q.owner == p.rel.ToType && q.rel.FromName == p.rel.ToName && q.rel.ToName == p.rel.FromName {
				found = true
			}
		}
		if !found {
			offenders++
		}
	}
	if offenders > 0 && offenders < len(all) {
		x.R.Mark("nontrivial", mc.Hash(desc))
	}
	x.R.Sample("names", desc)
	var errs []error
	p := Try(func() { errs = s.Check() })
	x.R.Add("transitions", 1)
	x.Observe(desc, len(errs), p)
	switch {
	case p != "":
		x.Fail("C15:names:panic", "Check panicked on %s: %s", desc, p)
	case offenders == 0 && len(errs) != 0:
		x.Fail("C15:names:false-positive", "schema %s has no offending relationship but Check reports %v", desc, errs)
	case len(errs) < offenders:
		x.Fail("C15:names:missed", "schema %s has %d offending relationship(s) but Check reports %d: %v", desc, offenders, len(errs), errs)
	}
}

// c15Large: schemas of 2..40 types (beyond any small-schema fast path): a ring of
// two-way pairs, a chain of one-way relationships, or a star whose leaves have no
// relationships at all (nil or empty map); consistent, or with one dangling /
// unreciprocated relationship placed at the first, a middle or the last type.
func c15Large(x *mc.Exec) {
	sizes := []int{2, 3, 15, 16, 17, 18, 32, 33, 40}
	n := sizes[x.Choose(len(sizes), "types")]
	shape := x.Choose(4, "shape")
	defect := x.Choose(3, "defect")
	pos := []int{0, n / 2, n - 1}[x.Choose(3, "position")]
	name := func(i int) string { return fmt.Sprintf("t%02d", (i%n+n)%n) }
	types := make([]j.Type, n)
	for i := range types {
		types[i] = j.Type{Name: name(i), Attrs: map[string]j.Attr{}, Rels: map[string]j.Rel{}}
	}
	switch shape {
	case 0: // ring of two-way pairs: ti.next <-> t(i+1).prev
		for i := range types {
			types[i].Rels["next"] = j.Rel{FromType: name(i), FromName: "next", ToOne: true, ToType: name(i + 1), ToName: "prev", FromOne: true}
			types[i].Rels["prev"] = j.Rel{FromType: name(i), FromName: "prev", ToOne: true, ToType: name(i - 1), ToName: "next", FromOne: true}
		}
	case 1: // chain of one-way relationships
		for i := 0; i < n-1; i++ {
			types[i].Rels["next"] = j.Rel{FromType: name(i), FromName: "next", ToType: name(i + 1)}
		}
	case 2, 3: // star: t00 points at every other type; the leaves declare no relationships
		for i := 1; i < n; i++ {
			r := fmt.Sprintf("r%02d", i)
			types[0].Rels[r] = j.Rel{FromType: name(0), FromName: r, ToType: name(i)}
			if shape == 2 {
				types[i].Rels = nil
			}
		}
	}
	offenders := 0
	switch defect {
	case 1: // a target that does not exist
		for _, k := range SortedKeys(types[pos].Rels) {
			r := types[pos].Rels[k]
			r.ToType = "missing"
			types[pos].Rels[k] = r
			offenders++
			// the former partner (ring) now names an inverse that no longer names it back
			if shape == 0 {
				offenders++
			}
			break
		}
	case 2: // an inverse name that nothing reciprocates
		for _, k := range SortedKeys(types[pos].Rels) {
			r := types[pos].Rels[k]
			r.ToName = "nobody"
			types[pos].Rels[k] = r
			offenders++
			if shape == 0 {
				offenders++
			}
			break
		}
	}
	if offenders > 0 && len(types[pos].Rels) == 0 {
		offenders = 0
	}
	s := &j.Schema{}
	for _, t := range types {
		if err := s.AddType(t); err != nil {
			panic(err)
		}
	}
	desc := fmt.Sprintf("%d types, shape %s, defect %s at %s", n, []string{"ring of two-way pairs", "one-way chain", "star with nil-Rels leaves", "star with empty-Rels leaves"}[shape],
		[]string{"none", "missing target", "unreciprocated inverse"}[defect], name(pos))
	x.Render(desc)
	x.R.Sample("large", desc)
	x.R.Mark("nontrivial", mc.Hash(desc))
	before := mc.Snap(s)
	var errs []error
	p := Try(func() { errs = s.Check() })
	x.R.Add("transitions", 1)
	x.Observe(desc, len(errs), p)
	switch {
	case p != "":
		x.Fail("C15:large:panic", "Check panicked on %s: %s", desc, p)
	case offenders == 0 && len(errs) != 0:
		x.Fail("C15:large:false-positive", "schema (%s) has no offending relationship but Check reports %v", desc, errs)
	case len(errs) < offenders:
		x.Fail("C15:large:missed", "schema (%s) has %d offending relationship(s) but Check reports %d: %v", desc, offenders, len(errs), errs)
	}
	if mc.Snap(s) != before {
		x.Fail("C15:large:modified-schema", "Check modified the schema (%s)", desc)
	}
}

func init() {
	Register(&Prop{
		ID: "C15",
		Rule: "Engine A: ALL schemas over types {a,b} (type c always missing; thorough adds a third type d, then with slots a.x, a.y, b.x, d.x): per type two relationship slots x,y, each absent or target{a,b,c} x inverse{\"\",x,y} x FromType{owner,other,empty} (28 options per slot, 28^4 + smaller type sets), both type orders, relationships stored under their names or under unrelated map keys; the iteration order of every map loop instance inside Check is a deviation-bounded choice (bound 1). plus every history of 4 (thorough 5) schema edits (incl. edits that break and repair coherence) with Check() called after every subset of them, the final verdict compared with an equal schema built in one go. plus ALL schemas of three types a, x, x<sep>x each with at most one relationship named p, q or x<sep>q towards any of them with inverse name in {none, p, q, x<sep>q}, for 6 separators (names whose joined strings coincide) and for names / targets that differ by letter case only. plus schemas of 2..40 types (ring of two-way pairs, one-way chain, star with nil- / empty-Rels leaves) x {consistent, missing target, unreciprocated inverse} at the first, a middle and the last type. Oracle: independent offender count; Check()==[] iff no offender, len(Check()) >= offenders, no panic, deep snapshot of the schema unchanged. Non-trivial = schema with some but not all relationships offending",
		Assumptions: []string{"'names it back' is the pair-of-names test of the statement; whether the inverse also points at the owning type is not demanded (weaker reading)"},
		Harnesses: []Harness{{Name: "C15/all-schemas", Body: c15Body, ShardDepth: 3, Dev: func() int { return 1 }},
			{Name: "C15/incremental", Body: c15Incremental}, {Name: "C15/names", Body: c15Names}, {Name: "C15/large", Body: c15Large}},
	})
}
