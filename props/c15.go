package props

import (
	"fmt"

	j "github.com/mfcochauxlaberge/jsonapi"

	"verif/mc"
)

// C15 — Schema.Check finds every dangling or unreciprocated relationship.

func c15Slot(x *mc.Exec, owner, other, name string, targets []string) (j.Rel, bool, string) {
	n := 1 + len(targets)*3*3
	c := x.Choose(n, "slot "+owner+"."+name)
	if c == 0 {
		return j.Rel{}, false, ""
	}
	c--
	target := targets[c%len(targets)]
	c /= len(targets)
	inv := []string{"", "x", "y"}[c%3]
	c /= 3
	from := owner
	switch c {
	case 1:
		from = other
	case 2:
		from = "" // a hand-declared relationship may leave it empty: not "its own type"
	}
	r := j.Rel{FromType: from, FromName: name, ToOne: true, ToType: target, ToName: inv}
	return r, true, fmt.Sprintf("%s.%s->%s inv=%q from=%s; ", owner, name, target, inv, from)
}

func c15Body(x *mc.Exec) {
	var typeNames []string
	targets := []string{"a", "b", "c"}
	if Thorough() {
		switch x.Choose(4, "types") {
		case 0:
			typeNames = []string{"a", "b"}
		case 1:
			typeNames = []string{"a"}
		case 2:
			typeNames = []string{"b", "a"}
		case 3:
			typeNames = []string{"a", "b", "d"}
			targets = []string{"a", "b", "c", "d"}
		}
	} else {
		switch x.Choose(3, "types") {
		case 0:
			typeNames = []string{"a", "b"}
		case 1:
			typeNames = []string{"a"}
		case 2:
			typeNames = []string{"b", "a"}
		}
	}
	// Rels maps built by hand may use keys that are not the relationship names
	byName := x.Choose(2, "map keys") == 0
	s := &j.Schema{}
	desc := fmt.Sprintf("types %v (keys by name: %v): ", typeNames, byName)
	type placed struct {
		owner string
		rel   j.Rel
	}
	var all []placed
	for ti, tn := range typeNames {
		other := typeNames[(ti+1)%len(typeNames)]
		if len(typeNames) == 1 {
			other = "b"
		}
		t := j.Type{Name: tn, Attrs: map[string]j.Attr{}, Rels: map[string]j.Rel{}}
		slots := []string{"x", "y"}
		if len(typeNames) == 3 && ti == 2 {
			slots = []string{"x"}
		}
		for _, name := range slots {
			if r, ok, d := c15Slot(x, tn, other, name, targets); ok {
				key := name
				if !byName {
					key = map[string]string{"x": "k1", "y": "k0"}[name]
				}
				t.Rels[key] = r
				all = append(all, placed{tn, r})
				desc += d
			}
		}
		if err := s.AddType(t); err != nil {
			panic(err)
		}
	}
	x.Render(desc)

	// independent offender count
	has := map[string]bool{}
	for _, t := range typeNames {
		has[t] = true
	}
	offenders := 0
	for _, p := range all {
		r := p.rel
		off := false
		if !has[r.ToType] {
			off = true
		}
		if r.ToName != "" {
			if r.FromType != p.owner {
				off = true
			} else {
				found := false
				for _, q := range all {
					if q.owner == r.ToType && q.rel.FromName == r.ToName && q.rel.ToName == r.FromName {
						found = true
					}
				}
				if !found {
					off = true
				}
			}
		}
		if off {
			offenders++
		}
	}
	if offenders > 0 && offenders < len(all) {
		x.R.Mark("nontrivial", mc.Hash(desc))
	}
	x.R.Sample("schema", desc)

	before := mc.Snap(s)
	var errs []error
	var p string
	WithMapDev(x, func() { p = Try(func() { errs = s.Check() }) })
	x.R.Add("transitions", 1)
	x.Observe(desc, len(errs), p)
	switch {
	case p != "":
		x.Fail("C15:panic", "Check panicked on %s: %s", desc, p)
	case offenders == 0 && len(errs) != 0:
		x.Fail("C15:false-positive", "schema %s has no offending relationship but Check reports %v", desc, errs)
	case offenders > 0 && len(errs) == 0:
		x.Fail("C15:missed-all", "schema %s has %d offending relationship(s) but Check reports nothing", desc, offenders)
	case len(errs) < offenders:
		x.Fail("C15:missed-some", "schema %s has %d offending relationships but Check reports only %d: %v", desc, offenders, len(errs), errs)
	}
	if after := mc.Snap(s); after != before {
		x.Fail("C15:modified-schema", "Check modified the schema %s", desc)
	}
	if errs == nil && p == "" {
		// statement: returns an empty list; nil vs empty is not judged
		_ = errs
	}
}

func init() {
	Register(&Prop{
		ID: "C15",
		Rule: "Engine A: ALL schemas over types {a,b} (type c always missing; thorough adds a third type d): per type two relationship slots x,y, each absent or target{a,b,c} x inverse{\"\",x,y} x FromType{owner,other,empty} (28 options per slot, 28^4 + smaller type sets), both type orders, relationships stored under their names or under unrelated map keys; the iteration order of every map loop instance inside Check is a deviation-bounded choice (bound 1). Oracle: independent offender count; Check()==[] iff no offender, len(Check()) >= offenders, no panic, deep snapshot of the schema unchanged. Non-trivial = schema with some but not all relationships offending",
		Assumptions: []string{"'names it back' is the pair-of-names test of the statement; whether the inverse also points at the owning type is not demanded (weaker reading)"},
		Harnesses: []Harness{{Name: "C15/all-schemas", Body: c15Body, ShardDepth: 3, Dev: func() int { return 1 }}},
	})
}
