package props

import (
	"encoding/base64"
	"encoding/json"
	"fmt"
	"math/big"
	"reflect"
	"sort"
	"strings"
	"time"
	"unicode/utf16"
	"unicode/utf8"

	j "github.com/mfcochauxlaberge/jsonapi"

	"verif/mc"
)

// C06 — unmarshaling is faithful: accepted values are the payload's values.

func intKinds() []Kind {
	var ks []Kind
	for _, k := range AllKinds() {
		if _, _, ok := k.IntRange(); ok {
			ks = append(ks, k)
		}
	}
	return ks
}

// denoteNumber reads a JSON number literal with arbitrary precision.
func denoteNumber(lit string) (*big.Rat, bool) {
	if !json.Valid([]byte(lit)) || lit == "" {
		return nil, false
	}
	c := lit[0]
	if c != '-' && (c < '0' || c > '9') {
		return nil, false
	}
	r, ok := new(big.Rat).SetString(lit)
	return r, ok
}

func inRange(k Kind, v *big.Int) bool {
	min, max, _ := k.IntRange()
	return v.Cmp(big.NewInt(min)) >= 0 && v.Cmp(new(big.Int).SetUint64(max)) <= 0
}

// c06JudgeInt judges what the library did with literal lit for integer kind k.
// accepted=false means an error (or a panic) was returned.
func c06JudgeInt(x *mc.Exec, via string, k Kind, lit string, accepted bool, val any) {
	if !accepted {
		return // no completeness demand
	}
	sigBase := fmt.Sprintf("C06:int:%s:%s", via, k)
	if lit == "null" {
		if !k.Nullable {
			x.Fail(sigBase+":null-accepted", "%s: null accepted for non-nullable %s (stored %s)", via, k, ShowVal(val))
		} else if !IsNilVal(val) {
			x.Fail(sigBase+":null-not-nil", "%s: null for %s stored as %s", via, k, ShowVal(val))
		}
		return
	}
	den, ok := denoteNumber(lit)
	if !ok {
		x.Fail(sigBase+":non-number-accepted", "%s: literal %s accepted for %s (stored %s)", via, lit, k, ShowVal(val))
		return
	}
	if IsNilVal(val) || reflect.TypeOf(val) != k.GoType() {
		x.Fail(sigBase+":wrong-go-type", "%s: literal %s for %s stored as %s", via, lit, k, ShowVal(val))
		return
	}
	got := new(big.Rat).SetInt(toBig(Deref(val)))
	if got.Cmp(den) != 0 {
		class := "inexact"
		if den.IsInt() && !inRange(k, den.Num()) {
			class = "out-of-range-accepted"
		} else if !den.IsInt() {
			class = "fraction-accepted"
		}
		x.Fail(sigBase+":"+class, "%s: literal %s accepted for %s but stored as %s", via, lit, k, ShowVal(val))
	}
}

func c06TryAttr(k Kind, lit string) (accepted bool, val any) {
	a := j.Attr{Name: "a", Type: k.Type, Nullable: k.Nullable}
	var err error
	if p := Try(func() { val, err = a.UnmarshalToType([]byte(lit)) }); p != "" {
		return false, nil
	}
	return err == nil, val
}

func c06TryRes(schema *j.Schema, lit string) (accepted bool, val any) {
	payload := `{"id":"x","type":"t","attributes":{"a":` + lit + `}}`
	var res j.Resource
	var err error
	if p := Try(func() { res, err = j.UnmarshalResource([]byte(payload), schema) }); p != "" {
		return false, nil
	}
	if err != nil || res == nil {
		return false, nil
	}
	return true, res.Get("a")
}

func c06IntLits(chunk int) []string {
	var lits []string
	if chunk < 14 {
		lo := -70000 + chunk*10001
		for v := lo; v < lo+10001 && v <= 70000; v++ {
			lits = append(lits, fmt.Sprint(v))
		}
		return lits
	}
	// chunk 14: powers, specials
	one := big.NewInt(1)
	for e := 0; e <= 70; e++ {
		p := new(big.Int).Lsh(one, uint(e))
		for d := int64(-2); d <= 2; d++ {
			v := new(big.Int).Add(p, big.NewInt(d))
			lits = append(lits, v.String(), new(big.Int).Neg(v).String())
		}
	}
	ten := big.NewInt(10)
	for e := 0; e <= 21; e++ {
		p := new(big.Int).Exp(ten, big.NewInt(int64(e)), nil)
		for d := int64(-1); d <= 1; d++ {
			v := new(big.Int).Add(p, big.NewInt(d))
			lits = append(lits, v.String(), new(big.Int).Neg(v).String())
		}
	}
	lits = append(lits, "-0", "0.0", "1.0", "1.5", "-1.5", "1e2", "1E+2", "1e-1", "1e0", "12e-1", "0e0", "1e19", "1e20",
		"1.0000000000000000000001", "0.9999999999999999999999", "127.0", "128.0", "255.5",
		"null", "true", "false", `"1"`, `""`, `"a"`, "[]", "[1]", "{}", `{"a":1}`,
		"18446744073709551615.0", "9223372036854775807.0", "9223372036854775808", "-9223372036854775809",
		"4294967296", "4294967295", "-2147483649", "2147483648", "65536", "-32769", "256", "-129", "300", "-300")
	return lits
}

func c06Int(x *mc.Exec) {
	ks := intKinds()
	w := x.Choose(len(ks)*15, "kind x chunk")
	k, chunk := ks[w/15], w%15
	soft := chunk%2 == 0
	d := TypeD{Name: "t", Attrs: []AttrD{{"a", k}}}
	schema := BuildSchema([]TypeD{d}, []bool{soft})
	lits := c06IntLits(chunk)
	for _, lit := range lits {
		valid := json.Valid([]byte(lit))
		if valid {
			acc, v := c06TryAttr(k, lit)
			x.R.Add("transitions", 1)
			c06JudgeInt(x, "attr", k, lit, acc, v)
			if den, ok := denoteNumber(lit); ok && (!den.IsInt() || !inRange(k, den.Num())) {
				x.R.Mark("nontrivial", mc.Hash(k.String(), lit))
			}
		}
		acc, v := c06TryRes(schema, lit)
		x.R.Add("transitions", 1)
		c06JudgeInt(x, "resource-"+implName(soft), k, lit, acc, v)
		x.Observe(lit, acc)
	}
	x.R.Sample("int", fmt.Sprintf("%s chunk %d: %d literals, e.g. %s", k, chunk, len(lits), lits[len(lits)/2]))
	x.Render(fmt.Sprintf("kind %s chunk %d (%s .. %s)", k, chunk, lits[0], lits[len(lits)-1]))
}

// ---- independent JSON string reader ---------------------------------------

func unescapeJSONString(lit string) (string, bool) {
	if len(lit) < 2 || lit[0] != '"' || lit[len(lit)-1] != '"' {
		return "", false
	}
	s := lit[1 : len(lit)-1]
	var out []rune
	for i := 0; i < len(s); {
		c := s[i]
		if c == '\\' {
			if i+1 >= len(s) {
				return "", false
			}
			i++
			switch s[i] {
			case '"', '\\', '/':
				out = append(out, rune(s[i]))
			case 'b':
				out = append(out, '\b')
			case 'f':
				out = append(out, '\f')
			case 'n':
				out = append(out, '\n')
			case 'r':
				out = append(out, '\r')
			case 't':
				out = append(out, '\t')
			case 'u':
				if i+4 >= len(s) {
					return "", false
				}
				var u rune
				if _, err := fmt.Sscanf(s[i+1:i+5], "%04x", &u); err != nil {
					return "", false
				}
				i += 4
				if utf16.IsSurrogate(u) {
					if i+6 < len(s)+0 && s[i+1] == '\\' && s[i+2] == 'u' {
						var u2 rune
						if _, err := fmt.Sscanf(s[i+3:i+7], "%04x", &u2); err == nil {
							if r := utf16.DecodeRune(u, u2); r != utf8.RuneError {
								out = append(out, r)
								i += 6
								break
							}
						}
					}
					return "", false // lone surrogate: outside the alphabet
				}
				out = append(out, u)
			default:
				return "", false
			}
			i++
			continue
		}
		if c < 0x20 || c == '"' {
			return "", false
		}
		r, n := utf8.DecodeRuneInString(s[i:])
		if r == utf8.RuneError && n == 1 {
			return "", false
		}
		out = append(out, r)
		i += n
	}
	return string(out), true
}

func encodeRaw(s string) string {
	var b strings.Builder
	b.WriteByte('"')
	for _, r := range s {
		switch {
		case r == '"' || r == '\\':
			b.WriteByte('\\')
			b.WriteRune(r)
		case r < 0x20:
			fmt.Fprintf(&b, "\\u%04x", r)
		default:
			b.WriteRune(r)
		}
	}
	b.WriteByte('"')
	return b.String()
}

func encodeAllU(s string) string {
	var b strings.Builder
	b.WriteByte('"')
	for _, r := range s {
		if r > 0xFFFF {
			r1, r2 := utf16.EncodeRune(r)
			fmt.Fprintf(&b, "\\u%04X\\u%04x", r1, r2)
		} else {
			fmt.Fprintf(&b, "\\u%04x", r)
		}
	}
	b.WriteByte('"')
	return b.String()
}

func encodeMixed(s string) string {
	var b strings.Builder
	b.WriteByte('"')
	i := 0
	for _, r := range s {
		i++
		switch {
		case r == '\n':
			b.WriteString("\\n")
		case r == '\t':
			b.WriteString("\\t")
		case r == '/':
			b.WriteString("\\/")
		case r == '"' || r == '\\':
			b.WriteByte('\\')
			b.WriteRune(r)
		case r < 0x20 || i%2 == 0 && r < 0x10000:
			fmt.Fprintf(&b, "\\u%04x", r)
		default:
			b.WriteRune(r)
		}
	}
	b.WriteByte('"')
	return b.String()
}

var c06WrongKinds = []string{"null", "true", "false", "0", "1", "-1", "1.5", "[]", `[""]`, "{}", `{"a":"b"}`, `"x"`, `""`}

func c06Other(x *mc.Exec) {
	var ks []Kind
	for _, k := range AllKinds() {
		if _, _, ok := k.IntRange(); !ok {
			ks = append(ks, k)
		}
	}
	k := ks[x.Choose(len(ks), "kind")]
	soft := x.Choose(2, "impl") == 0
	d := TypeD{Name: "t", Attrs: []AttrD{{"a", k}}}
	schema := BuildSchema([]TypeD{d}, []bool{soft})

	type lit struct {
		text string
		den  any  // denoted base value
		has  bool // whether the literal denotes a value of the kind
	}
	var lits []lit
	switch k.Type {
	case j.AttrTypeString:
		for _, s := range append(append([]string{}, StringAlphabet...), "a/b", " ", "\U0001F600x", "tab\there", "\x7f") {
			for _, enc := range []string{encodeRaw(s), encodeAllU(s), encodeMixed(s)} {
				den, ok := unescapeJSONString(enc)
				if !ok || den != s {
					panic(fmt.Sprintf("harness string codec broken for %q via %s", s, enc))
				}
				lits = append(lits, lit{enc, s, true})
			}
		}
	case j.AttrTypeBool:
		lits = append(lits, lit{"true", true, true}, lit{"false", false, true})
	case j.AttrTypeTime:
		var forms []string
		for _, off := range []string{"Z", "+00:00", "-00:00", "+05:30", "-11:00", "+14:00", "-23:59", "+23:59", "+00:01", "z"} {
			for _, frac := range []string{"", ".1", ".123", ".123456", ".123456789", ".000000001", ".999999999"} {
				for _, base := range []string{"2020-02-29T12:30:15", "0001-01-01T00:00:00", "9999-12-31T23:59:59", "1970-01-01t00:00:00"} {
					forms = append(forms, base+frac+off)
				}
			}
		}
		for _, f := range forms {
			t, err := time.Parse(time.RFC3339Nano, strings.ToUpper(f))
			lits = append(lits, lit{`"` + f + `"`, t, err == nil})
		}
		for _, bad := range []string{"2020-13-01T00:00:00Z", "2020-02-30T00:00:00Z", "2020-01-01T25:00:00Z", "2020-01-01T00:00:00", "2020-01-01", "2020-01-01 00:00:00Z", "", "now", "2020-01-01T00:00:60Z", "20200101T000000Z", "2020-1-1T00:00:00Z"} {
			lits = append(lits, lit{`"` + bad + `"`, nil, false})
		}
	case j.AttrTypeBytes:
		var raws [][]byte
		raws = append(raws, BytesAlph...)
		raws = append(raws, []byte("hello world, this is a longer byte string for base64 \xff\xfe"), []byte{0xfb, 0xff}, []byte{0xfb, 0xff, 0xfe})
		for _, r := range raws {
			std := base64.StdEncoding.EncodeToString(r)
			lits = append(lits, lit{`"` + std + `"`, r, true})
			for _, variant := range []string{
				strings.TrimRight(std, "="),               // unpadded
				base64.URLEncoding.EncodeToString(r),      // URL alphabet
				strings.Replace(std, "", "\\n", 2),        // embedded newline escapes
				strings.Replace(std, "=", "", 1),          // one padding char dropped
				std + "=",                                 // extra padding
				" " + std,                                 // leading space
			} {
				if variant == std {
					continue
				}
				var denoted []byte
				var ok bool
				if u, uok := unescapeJSONString(`"` + variant + `"`); uok {
					clean := strings.NewReplacer("\n", "", "\r", "").Replace(u)
					if dec, err := base64.StdEncoding.DecodeString(clean); err == nil {
						denoted, ok = dec, true
					}
				}
				lits = append(lits, lit{`"` + variant + `"`, denoted, ok})
			}
		}
		lits = append(lits, lit{`"AR=="`, nil, false}) // non-zero trailing bits: decoders may differ; no denotation demanded
		lits[len(lits)-1].has = false
	}
	for _, w := range c06WrongKinds {
		// a literal of the wrong JSON kind denotes no value of this kind
		isString := len(w) > 0 && w[0] == '"'
		switch {
		case w == "null":
			lits = append(lits, lit{w, nil, false})
		case k.Type == j.AttrTypeBytes && w[0] == '[':
			// a JSON array for a byte string: the statement is silent (encoding/json
			// reads an array of numbers into []byte); not judged

		case k.Type == j.AttrTypeBool && (w == "true" || w == "false"):
		case (k.Type == j.AttrTypeString || k.Type == j.AttrTypeTime || k.Type == j.AttrTypeBytes) && isString:
			if k.Type == j.AttrTypeString {
				continue
			}
			if k.Type == j.AttrTypeBytes && w == `""` {
				continue
			}
			lits = append(lits, lit{w, nil, false})
		default:
			lits = append(lits, lit{w, nil, false})
		}
	}

	same := func(got any, den any) bool {
		if IsNilVal(got) || reflect.TypeOf(got) != k.GoType() {
			return false
		}
		g := Deref(got)
		switch dv := den.(type) {
		case time.Time:
			return g.(time.Time).Equal(dv)
		case []byte:
			// a nil byte string re-marshals as null, not as the (possibly empty) string it came from
			return g.([]byte) != nil && string(g.([]byte)) == string(dv)
		}
		return g == den
	}

	for _, l := range lits {
		for _, via := range []string{"attr", "resource-" + implName(soft)} {
			var acc bool
			var v any
			if via == "attr" {
				if !json.Valid([]byte(l.text)) {
					continue
				}
				acc, v = c06TryAttr(k, l.text)
			} else {
				acc, v = c06TryRes(schema, l.text)
			}
			x.R.Add("transitions", 1)
			x.Observe(l.text, acc)
			if !l.has {
				x.R.Mark("nontrivial", mc.Hash(k.String(), l.text))
			}
			if !acc {
				continue
			}
			sig := fmt.Sprintf("C06:%s:%s", via, k)
			switch {
			case l.text == "null":
				if !k.Nullable {
					x.Fail(sig+":null-accepted", "%s: null accepted for non-nullable %s (stored %s)", via, k, ShowVal(v))
				} else if !IsNilVal(v) {
					x.Fail(sig+":null-not-nil", "%s: null for %s stored as %s", via, k, ShowVal(v))
				}
			case !l.has:
				if l.text == `"AR=="` {
					continue
				}
				x.Fail(sig+":undenoting-accepted", "%s: literal %s denotes no %s but was accepted as %s", via, l.text, k, ShowVal(v))
			case !same(v, l.den):
				x.Fail(sig+":inexact", "%s: literal %s for %s stored as %s, denotes %s", via, l.text, k, ShowVal(v), ShowVal(l.den))
			}
		}
	}
	x.R.Sample("other", fmt.Sprintf("%s %s: %d literals e.g. %s", implName(soft), k, len(lits), lits[len(lits)/3].text))
	x.Render(fmt.Sprintf("%s kind %s, %d literals", implName(soft), k, len(lits)))
}

// ---- whole-resource faithfulness -------------------------------------------

func c06Resource(x *mc.Exec) { c06ResourceBody(x, false) }

// c06ResourceOrder explores the member-visiting order on a reduced product.
func c06ResourceOrder(x *mc.Exec) { c06ResourceBody(x, true) }

func c06ResourceBody(x *mc.Exec, order bool) {
	soft := x.Choose(2, "impl") == 0
	d := TypeD{Name: "t",
		Attrs: []AttrD{{"s", Kind{j.AttrTypeString, false}}, {"i", Kind{j.AttrTypeInt8, false}}, {"b", Kind{j.AttrTypeBool, true}},
			{"y", Kind{j.AttrTypeBytes, false}}, {"w", Kind{j.AttrTypeTime, true}}},
		Rels: []RelD{{"one", true, "u", ""}, {"many", false, "u", ""}, {"two", true, "u", ""}}}
	u := TypeD{Name: "u"}
	schema := BuildSchema([]TypeD{d, u}, []bool{soft, true})

	type opt struct {
		lit string
		den any
	}
	tm := time.Date(2020, 2, 29, 12, 30, 15, 5000, zPlus)
	attrOpts := map[string][]opt{
		"s": {{"", nil}, {`"héA"`, "héA"}, {`""`, ""}},
		"i": {{"", nil}, {"-128", int8(-128)}, {"7", int8(7)}},
		"b": {{"", nil}, {"null", (*bool)(nil)}, {"true", Ptr(true)}},
		"y": {{"", nil}, {`"AQI="`, []byte{1, 2}}, {`""`, []byte{}}},
		"w": {{"", nil}, {`"2020-02-29T12:30:15.000005+05:30"`, Ptr(tm)}, {"null", (*time.Time)(nil)}},
	}
	names := []string{"s", "i", "b", "y", "w"}
	zero := map[string]any{"s": "", "i": int8(0), "b": (*bool)(nil), "y": []byte{}, "w": (*time.Time)(nil)}
	var parts []string
	want := map[string]any{}
	for _, n := range names {
		nopt := 3
		if order && n != "s" && n != "b" {
			nopt = 1 // reduced product when the visiting order is explored
		}
		o := attrOpts[n][x.Choose(nopt, "attr "+n)]
		if o.lit == "" {
			want[n] = zero[n]
			continue
		}
		parts = append(parts, fmt.Sprintf("%q:%s", n, o.lit))
		want[n] = o.den
	}
	oneOpts := []struct {
		js  string
		den string
	}{{"", ""}, {`{"data":null}`, ""}, {`{"data":{"type":"u","id":"a b"}}`, "a b"}, {`{"links":{"self":"x"}}`, ""}, {`{"data":{"id":"k","type":"u"},"meta":{"m":1}}`, "k"}}
	manyOpts := []struct {
		js  string
		den []string
	}{{"", nil}, {`{"data":[]}`, nil}, {`{"data":[{"type":"u","id":"a"}]}`, []string{"a"}},
		{`{"data":[{"type":"u","id":"b"},{"type":"u","id":"a"}]}`, []string{"b", "a"}},
		{`{"data":[{"type":"u","id":"a"},{"type":"u","id":"a"}]}`, []string{"a", "a"}},
		{`{"data":[{"type":"u","id":"c"},{"type":"u","id":"a"},{"type":"u","id":"b"}]}`, []string{"c", "a", "b"}},
		{`{"meta":{}}`, nil}}
	oo := oneOpts[x.Choose(len(oneOpts), "one")]
	mo := manyOpts[x.Choose(len(manyOpts), "many")]
	// a second to-one relationship: absent, null, identifier without id, identifier
	twoOpts := []struct {
		js  string
		den string
	}{{"", ""}, {`{"data":null}`, ""}, {`{"data":{"type":"u"}}`, ""}, {`{"data":{"type":"u","id":"k2"}}`, "k2"}}
	to := twoOpts[x.Choose(len(twoOpts), "two")]
	var rparts []string
	if to.js != "" {
		rparts = append(rparts, `"two":`+to.js)
	}
	if oo.js != "" {
		rparts = append(rparts, `"one":`+oo.js)
	}
	if mo.js != "" {
		rparts = append(rparts, `"many":`+mo.js)
	}
	nid := 3
	if order {
		nid = 1
	}
	id := []string{"id1", "a b", "é\"\\"}[x.Choose(nid, "id")]
	idJSON, _ := json.Marshal(id)
	payload := `{"type":"t","id":` + string(idJSON)
	if len(parts) > 0 {
		payload += `,"attributes":{` + strings.Join(parts, ",") + `}`
	}
	if len(rparts) > 0 {
		payload += `,"relationships":{` + strings.Join(rparts, ",") + `}`
	}
	payload += "}"
	x.Render(payload)
	x.R.Sample("resource", payload)
	x.R.Mark("nontrivial", mc.Hash(payload, soft))

	var res j.Resource
	var err error
	// the order in which the attribute and relationship members are visited is the
	// runtime's choice: explore it (deviation bound 1)
	var p string
	if order {
		WithMapDevIn(x, map[string]bool{"UnmarshalResource": true}, func() {
			p = Try(func() { res, err = j.UnmarshalResource([]byte(payload), schema) })
		})
	} else {
		p = Try(func() { res, err = j.UnmarshalResource([]byte(payload), schema) })
	}
	x.R.Add("transitions", 1)
	x.Observe(payload, p, err != nil)
	sig := "C06:resource:" + implName(soft)
	if p != "" {
		x.Fail(sig+":panic", "UnmarshalResource panicked on valid payload %s: %s", payload, p)
		return
	}
	if err != nil {
		x.Fail(sig+":rejected-valid", "valid payload rejected: %s: %v", payload, err)
		return
	}
	if g, _ := res.Get("id").(string); g != id || res.GetType().Name != "t" {
		x.Fail(sig+":id-type", "payload %s: id %q type %q", payload, g, res.GetType().Name)
	}
	for _, n := range names {
		if !SameAttrValue(want[n], res.Get(n)) {
			x.Fail(sig+":attr:"+n, "payload %s: attribute %s is %s, payload denotes %s", payload, n, ShowVal(res.Get(n)), ShowVal(want[n]))
		}
	}
	if g, ok := res.Get("one").(string); !ok || g != oo.den {
		x.Fail(sig+":to-one", "payload %s: to-one is %v, payload says %q", payload, res.Get("one"), oo.den)
	}
	if g, ok := res.Get("two").(string); !ok || g != to.den {
		x.Fail(sig+":to-one", "payload %s (member order %v): to-one \"two\" is %v, payload says %q", payload, x.Choices(), res.Get("two"), to.den)
	}
	g, ok := res.Get("many").([]string)
	gs, ws := append([]string{}, g...), append([]string{}, mo.den...)
	sort.Strings(gs)
	sort.Strings(ws)
	if !ok || !reflect.DeepEqual(gs, ws) {
		x.Fail(sig+":to-many", "payload %s: to-many is %v, payload lists %v", payload, res.Get("many"), mo.den)
	}
	// the same payload through the partial entry point: every attribute member and every
	// relationship with a data member (null included) is present and holds the same value
	if !order {
		var part *j.SoftResource
		var perr error
		if pp := Try(func() { part, perr = j.UnmarshalPartialResource([]byte(payload), schema) }); pp != "" || perr != nil || part == nil {
			x.Fail(sig+":partial-rejected", "payload %s: UnmarshalPartialResource: panic %q error %v", payload, pp, perr)
			return
		}
		x.R.Add("transitions", 1)
		present := map[string]bool{}
		for _, pr := range []struct{ n, js string }{{"one", oo.js}, {"two", to.js}, {"many", mo.js}} {
			if strings.Contains(pr.js, `"data"`) {
				present[pr.n] = true
			}
		}
		for _, pt := range parts {
			var n string
			_ = json.Unmarshal([]byte(pt[:strings.Index(pt, ":")]), &n)
			present[n] = true
		}
		if pp := Try(func() {
			for _, n := range SortedKeys(present) {
				_, isA := part.Attrs()[n]
				_, isR := part.Rels()[n]
				switch {
				case !isA && !isR:
					x.Fail(sig+":partial-missing", "payload %s: partial unmarshaling does not report field %q, which the payload sets", payload, n)
				case isA && !SameAttrValue(part.Get(n), res.Get(n)):
					x.Fail(sig+":partial-attr", "payload %s: partial unmarshaling stores %s in %q, the payload denotes %s", payload, ShowVal(part.Get(n)), n, ShowVal(res.Get(n)))
				case isR && n == "many":
					a, _ := part.Get(n).([]string)
					b, _ := res.Get(n).([]string)
					a, b = append([]string{}, a...), append([]string{}, b...)
					sort.Strings(a)
					sort.Strings(b)
					if len(a) != len(b) || (len(a) > 0 && !reflect.DeepEqual(a, b)) {
						x.Fail(sig+":partial-to-many", "payload %s: partial unmarshaling stores %v in %q, the payload lists %v", payload, part.Get(n), n, res.Get(n))
					}
				case isR && n != "many" && part.Get(n) != res.Get(n):
					x.Fail(sig+":partial-to-one", "payload %s: partial unmarshaling stores %v in %q, the payload says %v", payload, part.Get(n), n, res.Get(n))
				}
			}
		}); pp != "" {
			x.Fail(sig+":partial-panic", "payload %s: reading the partial resource panicked: %s", payload, pp)
		}
	}
	// re-marshal reproduces id, type, attributes and linkage as the same JSON values
	var out []byte
	if p := Try(func() { out = j.MarshalResource(res, "", FieldNames(res.GetType()), AllRelData(schema)) }); p != "" {
		x.Fail(sig+":remarshal-panic", "re-marshal of %s panicked: %s", payload, p)
		return
	}
	x.R.Add("transitions", 1)
	var back struct {
		ID, Type      string
		Attributes    map[string]json.RawMessage
		Relationships map[string]struct{ Data json.RawMessage }
	}
	if err := json.Unmarshal(out, &back); err != nil {
		x.Fail(sig+":remarshal-json", "re-marshal of %s is not JSON: %v", payload, err)
		return
	}
	if back.ID != id || back.Type != "t" {
		x.Fail(sig+":remarshal-id", "re-marshal of %s has id %q type %q", payload, back.ID, back.Type)
	}
	res2, err2 := j.UnmarshalResource(out, schema)
	if err2 != nil {
		x.Fail(sig+":remarshal-reject", "re-marshaled %s rejected: %v", out, err2)
		return
	}
	if d := CompareRes(res, res2, nil); d != nil {
		x.Fail(sig+":remarshal-"+d.What, "re-marshal of %s then unmarshal differs: %s", payload, d.Msg)
	}
	var ids []struct{ ID, Type string }
	_ = json.Unmarshal(back.Relationships["many"].Data, &ids)
	var gl []string
	for _, i := range ids {
		gl = append(gl, i.ID)
		if i.Type != "u" {
			x.Fail(sig+":remarshal-linkage-type", "re-marshal of %s: to-many identifier type %q", payload, i.Type)
		}
	}
	sort.Strings(gl)
	if !reflect.DeepEqual(append([]string{}, gl...), ws) && !(len(gl) == 0 && len(ws) == 0) {
		x.Fail(sig+":remarshal-linkage", "re-marshal of %s: to-many linkage %v, payload %v", payload, gl, ws)
	}
}

// c06TwoSchemas: the declared kind is the one of the schema given to THIS call:
// two schemas declare a same-named type with the same field names and other
// kinds / cardinalities; payloads are unmarshaled against them alternately.
func c06TwoSchemas(x *mc.Exec) {
	kinds := []Kind{kStr, kInt, {j.AttrTypeInt8, false}, kPInt, kBool, {j.AttrTypeUint64, false}}
	k1 := kinds[x.Choose(len(kinds), "kind in schema 1")]
	k2 := kinds[x.Choose(len(kinds), "kind in schema 2")]
	soft1, soft2 := x.Bool("schema 1 soft"), x.Bool("schema 2 soft")
	lit := func(k Kind) (string, any) {
		switch k.Type {
		case j.AttrTypeString:
			return `"200"`, "200"
		case j.AttrTypeBool:
			return "true", true
		case j.AttrTypeInt8:
			return "100", int8(100)
		case j.AttrTypeUint64:
			return "200", uint64(200)
		}
		if k.Nullable {
			return "200", Ptr(int(200))
		}
		return "200", int(200)
	}
	mk := func(k Kind, soft bool, toOne bool) *j.Schema {
		d := TypeD{Name: "t", Attrs: []AttrD{{"code", k}}, Rels: []RelD{{"rel", toOne, "t", ""}}}
		return BuildSchema([]TypeD{d}, []bool{soft})
	}
	s1, s2 := mk(k1, soft1, true), mk(k2, soft2, false)
	desc := fmt.Sprintf("t.code is %s (%s) in schema 1 and %s (%s) in schema 2", k1, implName(soft1), k2, implName(soft2))
	x.Render(desc)
	x.R.Mark("nontrivial", mc.Hash(desc))
	for _, which := range []int{1, 2, 1, 2} {
		s, k, toOne := s1, k1, true
		if which == 2 {
			s, k, toOne = s2, k2, false
		}
		l, den := lit(k)
		data, wantRel := `{"type":"t","id":"a"}`, any("a")
		if !toOne {
			data, wantRel = `[{"type":"t","id":"a"}]`, any([]string{"a"})
		}
		payload := `{"type":"t","id":"1","attributes":{"code":` + l + `},"relationships":{"rel":{"data":` + data + `}}}`
		var r j.Resource
		var err error
		if p := Try(func() { r, err = j.UnmarshalResource([]byte(payload), s) }); p != "" || err != nil || r == nil {
			x.Fail("C06:two-schemas:rejected", "%s: schema %d rejects %s: panic %q err %v", desc, which, payload, p, err)
			return
		}
		x.R.Add("transitions", 1)
		if !SameAttrValue(r.Get("code"), den) || reflect.TypeOf(r.Get("code")) != k.GoType() {
			x.Fail("C06:two-schemas:value", "%s: against schema %d code is %s, the payload denotes %s", desc, which, ShowVal(r.Get("code")), ShowVal(den))
			return
		}
		if !reflect.DeepEqual(r.Get("rel"), wantRel) {
			x.Fail("C06:two-schemas:rel", "%s: against schema %d rel is %v, the payload lists %v", desc, which, r.Get("rel"), wantRel)
			return
		}
	}
}

// c06Collection: every member of a collection payload must be read as if it
// were alone (fields absent from ITS object hold their zero value, whatever the
// members before it carried).
func c06Collection(x *mc.Exec) {
	soft := x.Choose(2, "impl") == 0
	// two byte-string attributes: several decoded byte strings are alive at once, within one
	// resource and across the members of a collection
	d := TypeD{Name: "t", Attrs: []AttrD{{"s", kStr}, {"i", Kind{j.AttrTypeInt8, false}}, {"b", Kind{j.AttrTypeBool, true}}, {"y", Kind{j.AttrTypeBytes, false}}, {"py", Kind{j.AttrTypeBytes, true}}},
		Rels: []RelD{{"one", true, "u", ""}, {"many", false, "u", ""}}}
	schema := BuildSchema([]TypeD{d, {Name: "u", Attrs: []AttrD{{"z", kStr}}}}, []bool{soft, !soft})
	variants := []string{
		`{"type":"t","id":"1","attributes":{"s":"v","i":5,"b":true,"y":"QUFB","py":"QkJCQg=="},"relationships":{"one":{"data":{"type":"u","id":"o1"}},"many":{"data":[{"type":"u","id":"p1"}]}}}`,
		`{"type":"t","id":"2"}`,
		`{"type":"t","id":"3","attributes":{"i":-7,"y":"Q0ND"}}`,
		`{"type":"t","id":"4","relationships":{"many":{"data":[]},"one":{"data":null}}}`,
		`{"type":"u","id":"5","attributes":{"z":"q"}}`,
		`{"type":"t","attributes":{"b":null}}`,
	}
	n := 2 + x.Choose(2, "members")
	var members []string
	for i := 0; i < n; i++ {
		members = append(members, variants[x.Choose(len(variants), "member")])
	}
	payload := "[" + strings.Join(members, ",") + "]"
	x.Render(payload)
	x.R.Sample("collection", payload)
	x.R.Mark("nontrivial", mc.Hash(payload, soft))
	for _, via := range []string{"UnmarshalCollection", "UnmarshalDocument"} {
		var col j.Collection
		var err error
		p := Try(func() {
			if via == "UnmarshalCollection" {
				col, err = j.UnmarshalCollection([]byte(payload), schema)
			} else {
				var doc *j.Document
				doc, err = j.UnmarshalDocument([]byte(`{"data":`+payload+`}`), schema)
				if doc != nil {
					col, _ = doc.Data.(j.Collection)
				}
			}
		})
		x.R.Add("transitions", 1)
		sig := "C06:collection:" + via
		if p != "" || err != nil || col == nil {
			x.Fail(sig+":rejected-valid", "%s(%s): panic %q error %v", via, payload, p, err)
			continue
		}
		if col.Len() != n {
			x.Fail(sig+":length", "%s(%s) has %d members", via, payload, col.Len())
			continue
		}
		for i := 0; i < n; i++ {
			alone, err := j.UnmarshalResource([]byte(members[i]), schema)
			if err != nil {
				x.Fail(sig+":member-alone", "member %s alone is rejected: %v", members[i], err)
				continue
			}
			if d := CompareRes(alone, col.At(i), nil); d != nil {
				x.Fail(sig+":member-"+d.What, "%s(%s): member %d differs from the same object read alone: %s", via, payload, i, d.Msg)
			}
			// the byte strings, read only now that every member (and its copy read alone) has been decoded
			wantY := map[string][2]string{"1": {"AAA", "BBBB"}, "3": {"CCC", ""}}
			if w, ok := wantY[fmt.Sprint(col.At(i).Get("id"))]; ok && col.At(i).GetType().Name == "t" {
				y, _ := col.At(i).Get("y").([]byte)
				py, _ := col.At(i).Get("py").(*[]byte)
				gotPy := ""
				if py != nil {
					gotPy = string(*py)
				}
				if string(y) != w[0] || gotPy != w[1] {
					x.Fail(sig+":member-bytes", "%s(%s): member %d holds y=%q py=%q, the payload denotes %q and %q", via, payload, i, y, gotPy, w[0], w[1])
				}
			}
		}
	}
}

// c06Linkage: relationship data in the wrong shape for the cardinality (a list for a to-one, an
// object for a to-many) and identifiers with ill-typed members. Such a payload may be refused; if it
// is accepted, the relationship holds exactly the ids the payload lists (every string "id" found in
// the data member, by the harness's own reading).
func c06Linkage(x *mc.Exec) {
	soft := x.Bool("soft")
	d := TypeD{Name: "t", Rels: []RelD{{"one", true, "u", ""}, {"many", false, "u", ""}}}
	schema := BuildSchema([]TypeD{d, {Name: "u"}}, []bool{soft, true})
	forms := []string{
		`{"type":"u","id":"x"}`, `[{"type":"u","id":"x"}]`, `[{"type":"u","id":"x"},{"type":"u","id":"y"}]`, `[]`, `null`,
		`{"type":"u","id":7}`, `"x"`, `7`, `true`, `{"id":"x"}`, `{"type":"u"}`, `[{"id":"x"}]`, `["x"]`, `[null]`, `{}`, `[[{"type":"u","id":"x"}]]`,
	}
	rel := []string{"one", "many"}[x.Choose(2, "relationship")]
	form := forms[x.Choose(len(forms), "data")]
	via := []string{"UnmarshalResource", "UnmarshalDocument", "UnmarshalPartialResource"}[x.Choose(3, "entry")]
	payload := fmt.Sprintf(`{"type":"t","id":"r1","relationships":{%q:{"data":%s}}}`, rel, form)
	x.Render(via + " " + payload)
	x.R.Sample("linkage", payload)
	x.R.Mark("nontrivial", mc.Hash(payload, via, soft))
	var res j.Resource
	var err error
	p := Try(func() {
		switch via {
		case "UnmarshalResource":
			res, err = j.UnmarshalResource([]byte(payload), schema)
		case "UnmarshalPartialResource":
			var sr *j.SoftResource
			sr, err = j.UnmarshalPartialResource([]byte(payload), schema)
			if sr != nil {
				res = sr
			}
		default:
			var doc *j.Document
			doc, err = j.UnmarshalDocument([]byte(`{"data":`+payload+`}`), schema)
			if doc != nil {
				res, _ = doc.Data.(j.Resource)
			}
		}
	})
	x.R.Add("transitions", 1)
	x.Observe(payload, via, p, err != nil)
	if p != "" {
		return // C05's business
	}
	if err != nil || res == nil {
		return // refused: nothing is stored
	}
	// the ids the payload lists
	var data any
	_ = json.Unmarshal([]byte(form), &data)
	var listed []string
	var walk func(v any)
	walk = func(v any) {
		switch t := v.(type) {
		case []any:
			for _, e := range t {
				if _, nested := e.([]any); nested {
					walk(e)
					continue
				}
				// every element of a list stands for one identifier; one without a string id
				// (null, an object lacking it) is the identifier of the empty id
				id := ""
				if m, ok := e.(map[string]any); ok {
					id, _ = m["id"].(string)
				}
				listed = append(listed, id)
			}
		case map[string]any:
			if id, ok := t["id"].(string); ok && id != "" {
				listed = append(listed, id)
			}
		}
	}
	walk(data)
	if rel == "one" && len(listed) > 0 {
		// a to-one relationship holds one id: an empty one reads as no linkage
		var ne []string
		for _, id := range listed {
			if id != "" {
				ne = append(ne, id)
			}
		}
		listed = ne
	}
	var got []string
	switch v := res.Get(rel).(type) {
	case string:
		if v != "" {
			got = []string{v}
		}
	case []string:
		got = append(got, v...)
	}
	sort.Strings(got)
	sort.Strings(listed)
	if len(got) != len(listed) || (len(got) > 0 && !reflect.DeepEqual(got, listed)) {
		x.Fail(fmt.Sprintf("C06:linkage:%s:%s:%s", implName(soft), via, rel), "%s accepts %s and stores %v in %q, the payload lists %v", via, payload, res.Get(rel), rel, listed)
	}
}

// c06AfterRemove: the declared kind is the one of the payload's type in the schema as it is NOW:
// three types declare an attribute n of different widths; after every sequence of up to three
// RemoveType / AddType steps, payloads of each remaining type are read: in-range values stored with
// the type's own kind, out-of-range ones refused.
func c06AfterRemove(x *mc.Exec) {
	soft := x.Bool("soft")
	kinds := map[string]Kind{"small": {j.AttrTypeInt8, false}, "mid": {j.AttrTypeInt16, false}, "wide": {j.AttrTypeInt32, false}}
	mk := func(name string) j.Type {
		return TypeD{Name: name, Attrs: []AttrD{{"n", kinds[name]}}}.Type(soft)
	}
	s := &j.Schema{}
	present := map[string]bool{}
	desc := ""
	for _, n := range []string{"small", "mid", "wide"} {
		_ = s.AddType(mk(n))
		present[n] = true
	}
	steps := []string{"Remove(small)", "Remove(mid)", "Remove(wide)", "Add(small)", "Add(mid)", "lookup of every name"}
	for i := 0; i < 3; i++ {
		k := x.Choose(len(steps)+1, "step")
		if k == len(steps) {
			break
		}
		desc += steps[k] + "; "
		switch k {
		case 0, 1, 2:
			n := []string{"small", "mid", "wide"}[k]
			s.RemoveType(n)
			present[n] = false
		case 3, 4:
			n := []string{"small", "mid"}[k-3]
			if s.AddType(mk(n)) == nil {
				present[n] = true
			}
		case 5:
			for _, n := range []string{"small", "mid", "wide", "none"} {
				_, _ = s.HasType(n), s.GetType(n)
			}
		}
	}
	x.Render(desc)
	x.R.Mark("nontrivial", mc.Hash(desc, soft))
	want := map[string]any{"small": int8(100), "mid": int16(100), "wide": int32(100)}
	limit := map[string]string{"small": "300", "mid": "70000", "wide": "3000000000"}
	for _, n := range []string{"small", "mid", "wide"} {
		for _, via := range []string{"UnmarshalResource", "UnmarshalCollection"} {
			read := func(lit string) (j.Resource, error) {
				pl := fmt.Sprintf(`{"type":%q,"id":"r","attributes":{"n":%s}}`, n, lit)
				if via == "UnmarshalResource" {
					return j.UnmarshalResource([]byte(pl), s)
				}
				col, err := j.UnmarshalCollection([]byte("["+pl+"]"), s)
				if err != nil || col == nil || col.Len() != 1 {
					return nil, err
				}
				return col.At(0), nil
			}
			var r, r2 j.Resource
			var err, err2 error
			p := Try(func() { r, err = read("100"); r2, err2 = read(limit[n]) })
			x.R.Add("transitions", 2)
			sig := "C06:after-remove:" + via
			switch {
			case p != "":
				x.Fail(sig+":panic", "after [%s] reading a %q payload panicked: %s", desc, n, p)
			case !present[n]:
				if err == nil {
					x.Fail(sig+":removed-type-accepted", "after [%s] a payload of the removed type %q is accepted", desc, n)
				}
			case err != nil || r == nil:
				x.Fail(sig+":rejected-valid", "after [%s] {type %q, n: 100} is refused: %v", desc, n, err)
			case r.GetType().Name != n || r.Get("n") != want[n]:
				x.Fail(sig+":other-types-definition", "after [%s] {type %q, n: 100} is stored as type %q with n = %s, the schema declares %s", desc, n, r.GetType().Name, ShowVal(r.Get("n")), kinds[n])
			case err2 == nil && r2 != nil:
				x.Fail(sig+":out-of-range-accepted", "after [%s] {type %q, n: %s} is accepted although the schema declares %s", desc, n, limit[n], kinds[n])
			}
		}
	}
}

// c06LargeCollection: collections well beyond any small-input fast path (chunked or
// parallel decoding): every member is stored, in order, with its own values, and
// one out-of-range member anywhere (first, middle, last) makes the call refuse.
func c06LargeCollection(x *mc.Exec) {
	soft := x.Bool("soft")
	sizes := []int{15, 16, 17, 33, 63, 64, 65, 66, 67, 99, 130, 257, 1001}
	n := sizes[x.Choose(len(sizes), "members")]
	bad := x.Choose(4, "ill-typed member") // 0 none, 1 first, 2 middle, 3 last
	d := TypeD{Name: "t", Attrs: []AttrD{{"s", kStr}, {"i", Kind{j.AttrTypeInt16, false}}}, Rels: []RelD{{"many", false, "u", ""}}}
	schema := BuildSchema([]TypeD{d, {Name: "u"}}, []bool{soft, true})
	badAt := map[int]int{0: -1, 1: 0, 2: n / 2, 3: n - 1}[bad]
	var members []string
	for i := 0; i < n; i++ {
		v := fmt.Sprint(i - 7)
		if i == badAt {
			v = "70000"
		}
		members = append(members, fmt.Sprintf(`{"type":"t","id":"m%04d","attributes":{"s":"v%d","i":%s},"relationships":{"many":{"data":[{"type":"u","id":"u%d"}]}}}`, (i*7919)%n, i, v, i))
	}
	payload := "[" + strings.Join(members, ",") + "]"
	desc := fmt.Sprintf("%s: %d members, ill-typed member at %d", implName(soft), n, badAt)
	x.Render(desc)
	x.R.Sample("large-collection", desc)
	x.R.Mark("nontrivial", mc.Hash(desc))
	for _, via := range []string{"UnmarshalCollection", "UnmarshalDocument"} {
		var col j.Collection
		var err error
		p := Try(func() {
			if via == "UnmarshalCollection" {
				col, err = j.UnmarshalCollection([]byte(payload), schema)
			} else {
				var doc *j.Document
				doc, err = j.UnmarshalDocument([]byte(`{"data":`+payload+`}`), schema)
				if doc != nil {
					col, _ = doc.Data.(j.Collection)
				}
			}
		})
		x.R.Add("transitions", 1)
		sig := "C06:large-collection:" + via
		switch {
		case p != "":
			x.Fail(sig+":panic", "%s (%s) panicked: %s", via, desc, p)
		case bad != 0 && err == nil:
			x.Fail(sig+":out-of-range-accepted", "%s (%s): member %d holds 70000 for an int16 attribute and the collection is accepted", via, desc, badAt)
		case bad == 0 && (err != nil || col == nil):
			x.Fail(sig+":rejected-valid", "%s (%s): error %v", via, desc, err)
		case bad == 0 && col.Len() != n:
			x.Fail(sig+":length", "%s (%s): %d members stored", via, desc, col.Len())
		case bad == 0:
			for i := 0; i < n; i++ {
				r := col.At(i)
				wantID := fmt.Sprintf("m%04d", (i*7919)%n)
				many, _ := r.Get("many").([]string)
				if r.Get("id") != wantID || r.Get("s") != fmt.Sprint("v", i) || r.Get("i") != int16(i-7) || len(many) != 1 || many[0] != fmt.Sprint("u", i) {
					x.Fail(sig+":member", "%s (%s): member %d is id=%v s=%v i=%v many=%v", via, desc, i, r.Get("id"), r.Get("s"), r.Get("i"), r.Get("many"))
					break
				}
			}
		}
	}
}

func init() {
	Register(&Prop{
		ID: "C06",
		Rule: "Engine A, all choices Full: (a) 20 integer kinds x every integer literal in [-70000,70000] (exhaustive for 8/16-bit kinds and their out-of-range neighbourhood) + +-2^k+{-2..2} (k<=70) + +-10^k+{-1,0,1} (k<=21) + fractions/exponents/-0/null/true/false/strings/arrays, each through Attr.UnmarshalToType and through UnmarshalResource (soft and struct-backed); (b) string/bool/time/bytes kinds x alphabet in 3 JSON encodings, RFC3339 offsets x precisions, near-miss invalid times, canonical and non-canonical base64 (a decoded byte string must be non-nil: the empty string is not null), wrong JSON kinds; (c) whole payloads: 3^5 attribute presence/value combinations x 5 x 4 forms of two to-one relationships x 7 to-many forms x 3 ids x 2 implementations, also read through UnmarshalPartialResource (every member present holds the same value), re-marshaled and re-read; a reduced product (2 attributes) under every iteration order of one member map inside UnmarshalResource (deviation bound 1). (d) collections of 2-3 members over 6 member variants (full, minimal, partial, empty linkage, other type, no id) through UnmarshalCollection and UnmarshalDocument, each member compared with the same object read alone; collections of 15..1001 members, valid or with one out-of-range member first / in the middle / last; (e) 16 shapes of relationship data (wrong shape for the cardinality, ill-typed identifier members) x to-one / to-many x 3 entry points: if accepted, the relationship holds exactly the ids listed; (f) three types declaring an attribute of different widths, read after every sequence of up to 3 RemoveType / AddType / lookup steps. Oracle: accepted => stored value equals the math/big / own-unescaper / time.Parse / encoding/base64 reading of the literal; non-trivial = literal that is out of range, fractional, of the wrong kind, or a whole payload",
		Assumptions: []string{"no completeness demand: exotic spellings may be rejected; only 'accepted => exact' is judged", "a panic counts as not accepted here (panic freedom is C05)"},
		Harnesses: []Harness{
			{Name: "C06/int", Body: c06Int, ShardDepth: 1},
			{Name: "C06/other", Body: c06Other, ShardDepth: 1},
			{Name: "C06/resource", Body: c06Resource},
			{Name: "C06/collection", Body: c06Collection},
			{Name: "C06/large-collection", Body: c06LargeCollection},
			{Name: "C06/linkage", Body: c06Linkage},
			{Name: "C06/after-remove", Body: c06AfterRemove},
			{Name: "C06/two-schemas", Body: c06TwoSchemas},
			{Name: "C06/resource-member-order", Body: c06ResourceOrder, Dev: func() int { return 1 }},
		},
	})
}
