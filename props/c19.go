package props

import (
	"fmt"
	"reflect"
	"strings"

	j "github.com/mfcochauxlaberge/jsonapi"

	"verif/mc"
)

// C19 — SoftCollection behaves as an ordered in-memory store.

var (
	kStr  = Kind{j.AttrTypeString, false}
	kPInt = Kind{j.AttrTypeInt, true}
	kInt  = Kind{j.AttrTypeInt, false}
	kBool = Kind{j.AttrTypeBool, false}

	c19Base = TypeD{Name: "t", Attrs: []AttrD{{"a", kStr}, {"b", kPInt}}, Rels: []RelD{{"one", true, "u", ""}, {"many", false, "u", ""}}}
)

type c19Field struct {
	name  string
	attr  bool
	k     Kind
	toOne bool
}

func (f c19Field) zero() any {
	if f.attr {
		if f.k.Nullable {
			return nil
		}
		return reflect.Zero(f.k.GoType()).Interface()
	}
	if f.toOne {
		return ""
	}
	return []string{}
}

type c19Entry struct {
	id   string
	vals map[string]any
}

type c19Model struct {
	typeName string
	fields   []c19Field
	list     []*c19Entry
}

func (m *c19Model) field(n string) *c19Field {
	for i := range m.fields {
		if m.fields[i].name == n {
			return &m.fields[i]
		}
	}
	return nil
}

func fieldsOfType(t j.Type) []c19Field {
	var fs []c19Field
	for _, n := range SortedKeys(t.Attrs) {
		a := t.Attrs[n]
		fs = append(fs, c19Field{name: n, attr: true, k: Kind{a.Type, a.Nullable}})
	}
	for _, n := range SortedKeys(t.Rels) {
		fs = append(fs, c19Field{name: n, toOne: t.Rels[n].ToOne})
	}
	return fs
}

// add is the reference semantics of Add: extend the type with fields it lacks,
// append a snapshot of the ID and the well-typed values.
func (m *c19Model) add(r j.Resource) {
	e := &c19Entry{id: r.Get("id").(string), vals: map[string]any{}}
	for _, f := range fieldsOfType(r.GetType()) {
		mine := m.field(f.name)
		if mine == nil {
			m.fields = append(m.fields, f)
			mine = m.field(f.name)
		}
		v := r.Get(f.name)
		switch {
		case mine.attr && f.attr && mine.k == f.k:
			if IsNilVal(v) {
				v = nil
			}
			e.vals[f.name] = CloneVal(v)
		case !mine.attr && !f.attr && mine.toOne == f.toOne:
			e.vals[f.name] = CloneVal(v)
		}
	}
	m.list = append(m.list, e)
}

func (m *c19Model) value(e *c19Entry, f c19Field) any {
	if v, ok := e.vals[f.name]; ok {
		return v
	}
	return f.zero()
}

type c19Op struct {
	name string
	do   func(y *c19Sys) error
	mod  func(y *c19Sys, err error) string // returns a complaint about err ("" = fine)
}

type c19Sys struct {
	col   *j.SoftCollection
	m     *c19Model
	orig  map[string]j.Resource
	ops   []c19Op
	newT  *j.Type
	baseT *j.Type

	lastKind, lastName string
	eager              bool
}

func c19Res(key string) j.Resource {
	mk := func(d TypeD, soft bool, id string, set map[string]any) j.Resource {
		r := d.NewRes(soft)
		r.Set("id", id)
		for k, v := range set {
			r.Set(k, v)
		}
		return r
	}
	switch key {
	case "R1":
		return mk(c19Base, true, "1", map[string]any{"a": "x", "b": Ptr(int(1)), "one": "o", "many": []string{"m2", "m1"}})
	case "R2":
		return mk(c19Base, true, "2", map[string]any{"a": "y"})
	case "R1dup":
		return mk(c19Base, true, "1", map[string]any{"a": "dup", "one": "o2"})
	case "R3narrow":
		return mk(TypeD{Name: "t", Attrs: []AttrD{{"a", kStr}}}, true, "3", map[string]any{"a": "n"})
	case "R4wide":
		return mk(TypeD{Name: "t", Attrs: []AttrD{{"a", kStr}, {"b", kPInt}, {"c", kBool}}, Rels: []RelD{{"one", true, "u", ""}, {"many", false, "u", ""}, {"extra", false, "u", ""}}},
			true, "4", map[string]any{"a": "w", "c": true, "extra": []string{"e"}})
	case "R5conflict":
		return mk(TypeD{Name: "t", Attrs: []AttrD{{"a", kInt}}, Rels: []RelD{{"one", false, "u", ""}}}, true, "5", map[string]any{"a": 5, "one": []string{"z"}})
	case "R8cross":
		// an ATTRIBUTE named like the collection's relationship "many", a RELATIONSHIP named like its
		// attribute "b" (Go types that cannot be mistaken for one another: int / []string)
		return mk(TypeD{Name: "t", Attrs: []AttrD{{"many", kInt}}, Rels: []RelD{{"b", false, "u", ""}}}, true, "8", map[string]any{"many": 7, "b": []string{"z"}})
	case "R9nullability":
		// the same attribute names and base kinds as the collection's, differing in nullability only
		// (b: int here, *int there; a: *string here, string there): ill-typed for the collection, dropped
		return mk(TypeD{Name: "t", Attrs: []AttrD{{"b", kInt}, {"a", Kind{j.AttrTypeString, true}}}}, true, "9", map[string]any{"b": 5, "a": Ptr("ptr")})
	case "R0noid":
		// a resource that has not been given an ID yet
		return mk(c19Base, true, "", map[string]any{"a": "noid"})
	case "R6wrapped":
		return mk(c19Base, false, "6", map[string]any{"a": "wr", "b": Ptr(int(6)), "many": []string{"q"}})
	}
	panic(key)
}

func c19Ops() []c19Op {
	var ops []c19Op
	for _, k := range []string{"R1", "R2", "R1dup", "R3narrow", "R4wide", "R5conflict", "R6wrapped", "R0noid", "R8cross", "R9nullability"} {
		k := k
		ops = append(ops, c19Op{name: "Add(" + k + ")", do: func(y *c19Sys) error {
			r := c19Res(k)
			y.orig[k] = r
			y.col.Add(r)
			y.m.add(c19Res(k))
			return nil
		}})
	}
	// a soft resource bound to the collection's own *Type (legal: SetType(col.Type))
	ops = append(ops, c19Op{name: "Add(R7 sharing the collection's *Type)", do: func(y *c19Sys) error {
		r := &j.SoftResource{Type: y.col.Type}
		r.Set("id", "7")
		r.Set("a", "sh")
		y.orig["R7shared"] = r
		snapshot := &j.SoftResource{Type: func() *j.Type { t := y.col.Type.Copy(); return &t }()}
		snapshot.Set("id", "7")
		snapshot.Set("a", "sh")
		y.col.Add(r)
		y.m.add(snapshot)
		return nil
	}}, c19Op{name: "original R7 .Set(a) .Set(id)", do: func(y *c19Sys) error {
		if r := y.orig["R7shared"]; r != nil {
			r.Set("a", "MUTATED")
			r.Set("id", "MUTATED")
		}
		return nil
	}})
	for _, id := range []string{"1", "2", "9", ""} {
		id := id
		ops = append(ops, c19Op{name: "Remove(" + id + ")", do: func(y *c19Sys) error {
			y.col.Remove(id)
			for i, e := range y.m.list {
				if e.id == id {
					y.m.list = append(y.m.list[:i:i], y.m.list[i+1:]...)
					break
				}
			}
			return nil
		}})
	}
	addAttr := func(name string, a j.Attr) c19Op {
		return c19Op{name: name, do: func(y *c19Sys) error {
			err := y.col.AddAttr(a)
			valid := a.Name != "" && validKind(a) && y.m.field(a.Name) == nil
			if valid {
				y.m.fields = append(y.m.fields, c19Field{name: a.Name, attr: true, k: Kind{a.Type, a.Nullable}})
			}
			if (err == nil) != valid {
				return fmt.Errorf("AddAttr(%+v) returned %v, model says valid=%v", a, err, valid)
			}
			return nil
		}}
	}
	ops = append(ops,
		addAttr("AddAttr(new d:string)", j.Attr{Name: "d", Type: j.AttrTypeString}),
		addAttr("AddAttr(duplicate a)", j.Attr{Name: "a", Type: j.AttrTypeString}),
		addAttr("AddAttr(invalid kind)", j.Attr{Name: "e", Type: j.AttrTypeInvalid}),
	)
	addRel := func(name string, r j.Rel) c19Op {
		return c19Op{name: name, do: func(y *c19Sys) error {
			err := y.col.AddRel(r)
			valid := r.FromName != "" && r.ToType != "" && y.m.field(r.FromName) == nil
			if valid {
				y.m.fields = append(y.m.fields, c19Field{name: r.FromName, toOne: r.ToOne})
			}
			if (err == nil) != valid {
				return fmt.Errorf("AddRel returned %v, model says valid=%v", err, valid)
			}
			return nil
		}}
	}
	ops = append(ops,
		addRel("AddRel(new r2)", j.Rel{FromType: "t", FromName: "r2", ToOne: true, ToType: "u"}),
		addRel("AddRel(duplicate one)", j.Rel{FromType: "t", FromName: "one", ToOne: true, ToType: "u"}),
		// names that differ from existing ones by letter case only are other names
		addRel("AddRel(new ONE)", j.Rel{FromType: "t", FromName: "ONE", ToOne: false, ToType: "u"}),
		addAttr("AddAttr(new A:bool)", j.Attr{Name: "A", Type: j.AttrTypeBool}),
	)
	ops = append(ops,
		c19Op{name: "SetType(same pointer)", do: func(y *c19Sys) error {
			y.col.SetType(y.col.Type)
			return nil
		}},
		c19Op{name: "SetType(new type {a:string, z:string, one})", do: func(y *c19Sys) error {
			if y.newT == nil {
				t := TypeD{Name: "t", Attrs: []AttrD{{"a", kStr}, {"z", kStr}}, Rels: []RelD{{"one", true, "u", ""}}}.SoftType()
				y.newT = &t
			}
			y.col.SetType(y.newT)
			// reference: the collection's fields are now those of the new type
			// (including fields added to it since); values of fields that keep
			// name and kind are retained
			old := y.m.fields
			y.m.fields = fieldsOfType(*y.newT)
			for _, e := range y.m.list {
				for n := range e.vals {
					keep := false
					for _, f := range y.m.fields {
						for _, o := range old {
							if f.name == n && o.name == n && f == o {
								keep = true
							}
						}
					}
					if !keep {
						delete(e.vals, n)
					}
				}
			}
			return nil
		}},
		c19Op{name: "SetType(copy of the current type under another name, relationships with an inverse name)", do: func(y *c19Sys) error {
			// the same fields, of the same kinds and cardinalities: every stored value stays
			t := y.col.Type.Copy()
			t.Name = "renamed"
			for n, r := range t.Rels {
				r.FromType, r.ToName, r.FromOne = "renamed", "back", !r.FromOne
				t.Rels[n] = r
			}
			y.newT = &t
			y.col.SetType(y.newT)
			return nil
		}},
		c19Op{name: "SetType(type with as many fields under other names)", do: func(y *c19Sys) error {
			// same NUMBER of fields as the collection has now, none of the names
			n := len(y.m.fields)
			d := TypeD{Name: "t"}
			for i := 0; i < n; i++ {
				if i%2 == 0 {
					d.Attrs = append(d.Attrs, AttrD{fmt.Sprintf("q%d", i), kPInt})
				} else {
					d.Rels = append(d.Rels, RelD{fmt.Sprintf("q%d", i), false, "u", ""})
				}
			}
			t := d.SoftType()
			y.newT = &t
			y.col.SetType(y.newT)
			y.m.fields = fieldsOfType(t)
			for _, e := range y.m.list {
				e.vals = map[string]any{}
			}
			return nil
		}},
		c19Op{name: "rename through the type pointer: RemoveAttr(b) + AddAttr(b2)", do: func(y *c19Sys) error {
			if y.m.field("b") == nil || !y.m.field("b").attr || y.m.field("b2") != nil {
				return nil
			}
			y.col.Type.RemoveAttr("b")
			if err := y.col.Type.AddAttr(j.Attr{Name: "b2", Type: j.AttrTypeString}); err != nil {
				return err
			}
			var nf []c19Field
			for _, f := range y.m.fields {
				if f.name != "b" {
					nf = append(nf, f)
				}
			}
			y.m.fields = append(nf, c19Field{name: "b2", attr: true, k: kStr})
			for _, e := range y.m.list {
				delete(e.vals, "b")
			}
			// editing the type behind the collection's back is not one of the statement's
			// operations: when the stored values of the removed attribute go is not specified,
			// so the edit is followed by a read (after which they are gone in any case)
			y.observe()
			return nil
		}},
		c19Op{name: "original R1 .Set(a) .Set(many) .Set(id)", do: func(y *c19Sys) error {
			if r := y.orig["R1"]; r != nil {
				r.Set("a", "MUTATED")
				r.Set("many", []string{"MUTATED"})
				r.Set("id", "MUTATED")
			}
			return nil
		}},
		c19Op{name: "original R6 (wrapped) .Set(a) .Set(b)", do: func(y *c19Sys) error {
			if r := y.orig["R6wrapped"]; r != nil {
				r.Set("a", "MUTATED")
				r.Set("b", Ptr(int(-1)))
			}
			return nil
		}},
		// reading is an operation too (Len, At, Resource, GetType, Get of every field)
		c19Op{name: "read everything", do: func(y *c19Sys) error { y.observe(); return nil }},
	)
	return ops
}

func c19NewSys() *c19Sys {
	t := c19Base.SoftType()
	col := &j.SoftCollection{}
	col.SetType(&t)
	return &c19Sys{col: col, baseT: &t, orig: map[string]j.Resource{}, ops: c19Ops(),
		m: &c19Model{typeName: "t", fields: fieldsOfType(t)}}
}

func (y *c19Sys) Key() string {
	snap := mc.Snap(y.col, y.newT != nil && y.col.Type == y.newT)
	var b strings.Builder
	for _, k := range SortedKeys(y.orig) {
		b.WriteString(k + ":" + c18Read(y.orig[k]) + ";")
	}
	return snap + b.String()
}

func (y *c19Sys) observe() (what, msg string) {
	if p := Try(func() {
		if y.col.Len() != len(y.m.list) {
			what, msg = "len", fmt.Sprintf("Len() = %d, list model has %d", y.col.Len(), len(y.m.list))
			return
		}
		want := []string{}
		for _, f := range y.m.fields {
			want = append(want, f.name)
		}
		ws := append([]string{}, want...)
		sortStrings(ws)
		if got := FieldNames(y.col.GetType()); !reflect.DeepEqual(got, ws) {
			what, msg = "collection-fields", fmt.Sprintf("collection type has fields %v, model %v", got, ws)
			return
		}
		for i := -1; i <= len(y.m.list); i++ {
			r := y.col.At(i)
			if i < 0 || i >= len(y.m.list) {
				if r != nil {
					what, msg = "at-out-of-range", fmt.Sprintf("At(%d) = %v with Len %d, want nil", i, r, len(y.m.list))
					return
				}
				continue
			}
			e := y.m.list[i]
			if r == nil {
				what, msg = "at-nil", fmt.Sprintf("At(%d) is nil", i)
				return
			}
			if id, _ := r.Get("id").(string); id != e.id {
				what, msg = "order", fmt.Sprintf("At(%d) has id %q, model has %q", i, id, e.id)
				return
			}
			if got := FieldNames(r.GetType()); !reflect.DeepEqual(got, ws) {
				what, msg = "stored-fields", fmt.Sprintf("stored resource %q exposes fields %v, the collection's current fields are %v", e.id, got, ws)
				return
			}
			for _, f := range y.m.fields {
				g, w := r.Get(f.name), y.m.value(e, f)
				ok := false
				switch {
				case f.attr:
					ok = SameAttrValue(g, w) && (IsNilVal(g) || reflect.TypeOf(g) == f.k.GoType())
				case f.toOne:
					ok = g == w
				default:
					gl, isl := g.([]string)
					wl := w.([]string)
					ok = isl && len(gl) == len(wl) && (len(gl) == 0 || reflect.DeepEqual(gl, wl))
				}
				if !ok {
					what, msg = "stored-value", fmt.Sprintf("stored resource %q: Get(%q) = %s, model says %s", e.id, f.name, ShowValAny(g), ShowValAny(w))
					return
				}
			}
		}
		for _, id := range []string{"1", "2", "3", "6", "9"} {
			var first *c19Entry
			pos := -1
			for i, e := range y.m.list {
				if e.id == id {
					first, pos = e, i
					break
				}
			}
			r := y.col.Resource(id, nil)
			if (r == nil) != (first == nil) {
				what, msg = "resource-lookup", fmt.Sprintf("Resource(%q) = %v, model says present=%v", id, r, first != nil)
				return
			}
			if r != nil && r != y.col.At(pos) {
				what, msg = "resource-lookup-first", fmt.Sprintf("Resource(%q) is not the first element with that id (position %d)", id, pos)
				return
			}
		}
	}); p != "" {
		return "observe-panic", "reading the collection panicked: " + p
	}
	return
}

func sortStrings(s []string) {
	for i := 1; i < len(s); i++ {
		for k := i; k > 0 && s[k] < s[k-1]; k-- {
			s[k], s[k-1] = s[k-1], s[k]
		}
	}
}

// ShowValAny renders attribute values and relationship values.
func ShowValAny(v any) string {
	switch v := v.(type) {
	case []string:
		return fmt.Sprintf("%q", v)
	}
	return ShowVal(v)
}

func (y *c19Sys) Apply(op int) (fails []mc.Violation, fatal bool) {
	o := y.ops[op]
	opKind := o.name
	if i := strings.Index(opKind, "("); i > 0 {
		opKind = opKind[:i]
	}
	var complaint error
	if p := Try(func() { complaint = o.do(y) }); p != "" {
		return []mc.Violation{{Sig: "C19:" + o.name + ":panic", Msg: o.name + " panicked: " + p}}, true
	}
	if complaint != nil {
		fails = append(fails, mc.Violation{Sig: "C19:" + o.name + ":error-mismatch", Msg: complaint.Error()})
	}
	y.lastKind, y.lastName = opKind, o.name
	if y.eager {
		// second mode: everything is read after every step (reads cost no depth)
		f, ft := y.final()
		fails, fatal = append(fails, f...), ft
	}
	return
}

// Final: the collection is read once, after the last operation of the history
// (reading is an operation of its own: "read everything").
func (y *c19Sys) Final() (fails []mc.Violation, fatal bool) {
	if y.eager {
		return nil, false
	}
	return y.final()
}

func (y *c19Sys) final() (fails []mc.Violation, fatal bool) {
	var what, msg string
	if p := Try(func() { what, msg = y.observe() }); p != "" {
		return []mc.Violation{{Sig: "C19:" + y.lastKind + ":read-panic", Msg: "reading the collection after " + y.lastName + " panicked: " + p}}, true
	}
	if what != "" {
		fails = append(fails, mc.Violation{Sig: "C19:" + y.lastKind + ":" + what, Msg: "after " + y.lastName + ": " + msg})
	}
	return
}

func c19BFS(c *Ctx, eager bool) *mc.BFS {
	depth := 4
	if Thorough() {
		depth = 5
	}
	ops := c19Ops()
	name := "C19/histories"
	if eager {
		name = "C19/histories-read-after-every-step"
	} else if !Thorough() {
		// quick tier: the search without intermediate reads goes one level less deep than the other
		depth--
	}
	return &mc.BFS{Name: name, NOps: len(ops), MaxDepth: depth, Workers: c.Workers, R: c.R,
		OpName: func(i int) string { return ops[i].name },
		New:    func() mc.System { y := c19NewSys(); y.eager = eager; return y }}
}

func init() {
	Register(&Prop{
		ID: "C19",
		Rule: "Engine B: breadth-first search over ALL histories (depth <= 4 quick - 3 without intermediate reads - / 5 thorough) of 31 operations on a real SoftCollection whose type has been set: Add of 10 resources (attributes differing from the collection's in nullability only, same type, second id, duplicate id, narrower, wider, conflicting kind/cardinality for the same field name, attribute named like a relationship of the collection and vice versa, wrapped struct, empty id), Remove(1|2|9|\"\"), AddAttr(new|duplicate|invalid|case twin), AddRel(new|duplicate|case twin), SetType(same pointer|new type|renamed copy of the current type), Set on the original resources after they were added, reading everything; de-duplicated by deep snapshot. Two searches: in the first nothing is read between the operations of a history (reading is an operation), in the second everything is read after every step (reads cost no depth); after the last step Len, At(-1..Len), Resource(id), GetType and Get of every current field of every stored resource are compared with a list model (order, ids, well-typed values snapshotted at Add, zero for later fields). Every state beyond the initial one is non-trivial",
		Assumptions: []string{"after SetType(new type) values of fields that keep name and kind are expected to be retained (natural reading; only the field set is stated)", "only later Set calls on the original are judged, not in-place mutation of its slices"},
		Harnesses: []Harness{{Name: "C19/histories",
			Custom: func(c *Ctx) {
				if !c19BFS(c, false).Explore() {
					c.R.Cap("C19 incomplete")
				}
				c.R.Sets["nontrivial"] = c.R.Sets["states"]
			},
			ReplayCustom: func(c *Ctx, ch []int) []mc.Violation { v, _ := c19BFS(c, false).ReplayHistory(ch); return v }},
			{Name: "C19/histories-read-after-every-step",
				Custom: func(c *Ctx) {
					if !c19BFS(c, true).Explore() {
						c.R.Cap("C19 incomplete")
					}
					c.R.Sets["nontrivial"] = c.R.Sets["states"]
				},
				ReplayCustom: func(c *Ctx, ch []int) []mc.Violation { v, _ := c19BFS(c, true).ReplayHistory(ch); return v }}},
	})
}
