package props

import (
	"fmt"
	"reflect"
	"sort"

	j "github.com/mfcochauxlaberge/jsonapi"

	"verif/mc"
)

// C16 — two-way relationships have one canonical representative.

func showRel(r j.Rel) string {
	return fmt.Sprintf("{%q.%q toOne=%v -> %q.%q fromOne=%v}", r.FromType, r.FromName, r.ToOne, r.ToType, r.ToName, r.FromOne)
}

func showRels(l []j.Rel) string {
	s := "["
	for _, r := range l {
		s += showRel(r) + " "
	}
	return s + "]"
}

// " ": a name made of blanks only is a name like any other (AddRel and Check accept it)
var c16Names = []string{"", "a", "b", "ab", "bc", "c", "a_b", "A", "Ab", " "}

func c16Laws(x *mc.Exec) {
	n := len(c16Names)
	ft := c16Names[x.Choose(n, "FromType")]
	fn := c16Names[x.Choose(n, "FromName")]
	for _, tt := range c16Names {
		for _, tn := range c16Names {
			for card := 0; card < 4; card++ {
				r := j.Rel{FromType: ft, FromName: fn, ToType: tt, ToName: tn, ToOne: card&1 != 0, FromOne: card&2 != 0}
				desc := showRel(r)
				x.R.Add("transitions", 1)
				var fail string
				var sig string
				p := Try(func() {
					inv := r.Invert()
					if inv.Invert() != r {
						sig, fail = "C16:law:invert-involution", fmt.Sprintf("Invert(Invert(%s)) = %s", desc, showRel(inv.Invert()))
						return
					}
					nr := r.Normalize()
					if nr.Normalize() != nr {
						sig, fail = "C16:law:normalize-idempotent", fmt.Sprintf("Normalize(Normalize(%s)) = %s, Normalize = %s", desc, showRel(nr.Normalize()), showRel(nr))
						return
					}
					if nr != r && nr != inv {
						sig, fail = "C16:law:normalize-range", fmt.Sprintf("Normalize(%s) = %s is neither r nor its inverse", desc, showRel(nr))
						return
					}
					if tn == "" && nr != r {
						sig, fail = "C16:law:one-way-untouched", fmt.Sprintf("Normalize changed one-way %s into %s", desc, showRel(nr))
						return
					}
					twoWay := ft != "" && fn != "" && tt != "" && tn != ""
					selfInv := ft == tt && fn == tn
					if !twoWay || (selfInv && r.ToOne != r.FromOne) {
						return
					}
					x.R.Mark("nontrivial", mc.Hash(desc))
					ni := inv.Normalize()
					if nr != ni {
						sig, fail = "C16:law:normalize-symmetric", fmt.Sprintf("Normalize(%s) = %s but Normalize(inverse) = %s", desc, showRel(nr), showRel(ni))
						return
					}
					if r.String() != inv.String() {
						sig, fail = "C16:law:string-symmetric", fmt.Sprintf("String(%s) = %q but String(inverse) = %q", desc, r.String(), inv.String())
					}
				})
				if p != "" {
					x.Fail("C16:law:panic", "%s: %s", desc, p)
				} else if fail != "" {
					x.Fail(sig, "%s", fail)
				}
			}
		}
	}
	x.R.Sample("laws", fmt.Sprintf("FromType=%q FromName=%q x all (ToType, ToName, cardinalities)", ft, fn))
}

// ---- schema level -----------------------------------------------------------

type c16Slot struct {
	owner, name string
}

type c16Rel struct {
	slot    c16Slot
	target  string
	partner *c16Slot // nil = one-way
	toOne   bool
}

// c16Schema lets the explorer pick a coherent schema over the given types and
// relationship names: every slot (type, name) is absent, one-way to some type,
// or half of a two-way pair with a later free slot (or with itself).
func c16Schema(x *mc.Exec, types, names []string, maxRels int) []c16Rel {
	var slots []c16Slot
	for _, t := range types {
		for _, n := range names {
			slots = append(slots, c16Slot{t, n})
		}
	}
	used := map[c16Slot]bool{}
	var rels []c16Rel
	for i, s := range slots {
		if used[s] {
			continue
		}
		if len(rels) >= maxRels {
			break
		}
		var free []c16Slot
		for _, s2 := range slots[i+1:] {
			if !used[s2] {
				free = append(free, s2)
			}
		}
		nOpt := 1 + len(types) + len(free) + 1
		c := x.Choose(nOpt, fmt.Sprintf("slot %s.%s", s.owner, s.name))
		switch {
		case c == 0:
		case c <= len(types):
			rels = append(rels, c16Rel{slot: s, target: types[c-1], toOne: i%2 == 0})
		case c <= len(types)+len(free):
			p := free[c-1-len(types)]
			used[p] = true
			rels = append(rels, c16Rel{slot: s, target: p.owner, partner: &c16Slot{p.owner, p.name}, toOne: i%2 == 0})
		default:
			// self-inverse: same type and same name on both ends, equal cardinalities
			self := s
			rels = append(rels, c16Rel{slot: s, target: s.owner, partner: &self, toOne: true})
		}
	}
	return rels
}

// c16Loose: the two halves of a pair carry cardinality fields that were filled in
// independently, as BuildType does (it never sets FromOne): Check does not look
// at them, so the schema is coherent all the same.
var c16Loose bool

func c16NameKey(r j.Rel) [4]string { return [4]string{r.FromType, r.FromName, r.ToType, r.ToName} }

func c16Build(types []string, order []int, rels []c16Rel) *j.Schema {
	s := &j.Schema{}
	byName := map[string]*j.Type{}
	for _, t := range types {
		byName[t] = &j.Type{Name: t, Attrs: map[string]j.Attr{}, Rels: map[string]j.Rel{}}
	}
	for _, r := range rels {
		if r.partner == nil {
			byName[r.slot.owner].Rels[r.slot.name] = j.Rel{FromType: r.slot.owner, FromName: r.slot.name, ToOne: r.toOne, ToType: r.target}
			continue
		}
		a := j.Rel{FromType: r.slot.owner, FromName: r.slot.name, ToOne: r.toOne, ToType: r.partner.owner, ToName: r.partner.name, FromOne: true}
		if *r.partner == r.slot {
			a.FromOne = a.ToOne
			byName[r.slot.owner].Rels[r.slot.name] = a
			continue
		}
		b := a.Invert()
		if c16Loose {
			a.FromOne = false
			b.ToOne, b.FromOne = !r.toOne, false
		}
		byName[r.slot.owner].Rels[r.slot.name] = a
		byName[r.partner.owner].Rels[r.partner.name] = b
	}
	for _, i := range order {
		if err := s.AddType(*byName[types[i]]); err != nil {
			panic(err)
		}
	}
	return s
}

func c16Rels(x *mc.Exec) {
	types := []string{"a", "ab"}
	names := []string{"x", "bx"}
	maxRels := 4
	if Thorough() {
		types = []string{"a", "ab", "a_b"}
		names = []string{"x", "bx", "b_x"}
		maxRels = 3
	}
	shape := x.Choose(3, "shape")
	if shape == 1 {
		// a schema with a single type (pairs within the type)
		types = types[:1]
	}
	loose := shape == 2
	c16Loose = loose
	defer func() { c16Loose = false }()
	rels := c16Schema(x, types, names, maxRels)
	desc := []string{"", "single type: ", "cardinality fields filled in per half: "}[shape]
	nOne, nTwo := 0, 0
	for _, r := range rels {
		if r.partner == nil {
			desc += fmt.Sprintf("%s.%s->%s ", r.slot.owner, r.slot.name, r.target)
			nOne++
		} else {
			desc += fmt.Sprintf("%s.%s<->%s.%s ", r.slot.owner, r.slot.name, r.partner.owner, r.partner.name)
			nTwo++
		}
	}
	x.Render(desc)
	x.R.Sample("schema", desc)
	if nTwo > 0 {
		x.R.Mark("nontrivial", mc.Hash(desc))
	}

	// all orders of adding the types
	var orders [][]int
	var perm func(cur []int, rest []int)
	perm = func(cur, rest []int) {
		if len(rest) == 0 {
			orders = append(orders, append([]int{}, cur...))
			return
		}
		for i := range rest {
			nr := append(append([]int{}, rest[:i]...), rest[i+1:]...)
			perm(append(cur, rest[i]), nr)
		}
	}
	idx := make([]int, len(types))
	for i := range idx {
		idx[i] = i
	}
	perm(nil, idx)

	var ref []j.Rel
	for oi, order := range orders {
		s := c16Build(types, order, rels)
		if oi == 0 {
			// coherence is verified on a twin: the schema under test is not queried before Rels()
			if errs := c16Build(types, order, rels).Check(); len(errs) != 0 {
				x.Fail("C16:rels:harness-schema-incoherent", "harness built an incoherent schema (%s): %v", desc, errs)
				return
			}
		}
		var got []j.Rel
		var p string
		if oi == 0 {
			// the first build also runs under every map schedule (deviation bound)
			WithMapDev(x, func() { p = Try(func() { got = s.Rels() }) })
		} else {
			p = Try(func() { got = s.Rels() })
		}
		x.R.Add("transitions", 1)
		if p != "" {
			x.Fail("C16:rels:panic", "Rels() panicked on %s: %s", desc, p)
			return
		}
		// each one-way relationship once, each two-way pair once
		count := map[j.Rel]int{}
		for _, r := range got {
			count[r]++
		}
		want := 0
		for _, r := range rels {
			want++
			if r.partner == nil {
				one := j.Rel{FromType: r.slot.owner, FromName: r.slot.name, ToOne: r.toOne, ToType: r.target}
				if count[one] != 1 {
					x.Fail("C16:rels:one-way-count", "schema %s (order %v): one-way %s listed %d times in %s", desc, order, showRel(one), count[one], showRels(got))
				}
				continue
			}
			a := s.GetType(r.slot.owner).Rels[r.slot.name]
			b := a.Invert()
			n := count[a]
			if b != a {
				n += count[b]
			}
			if loose {
				// whichever half's cardinalities are reported, the pair is identified by its names
				n = 0
				for _, g := range got {
					if c16NameKey(g) == c16NameKey(a) || c16NameKey(g) == c16NameKey(b) {
						n++
					}
				}
			}
			if n != 1 {
				x.Fail("C16:rels:two-way-count", "schema %s (order %v): pair %s / inverse listed %d times in %s", desc, order, showRel(a), n, showRels(got))
			}
		}
		if len(got) != want {
			x.Fail("C16:rels:length", "schema %s (order %v): Rels() has %d entries, expected %d: %s", desc, order, len(got), want, showRels(got))
		}
		if loose {
			// compared by names only: which half's cardinality fields are shown is not judged
			for i := range got {
				got[i].ToOne, got[i].FromOne = false, false
			}
		}
		if oi == 0 {
			ref = got
		} else if !reflect.DeepEqual(ref, got) {
			x.Fail("C16:rels:order-dependent", "schema %s: Rels() differs between build orders %v and %v:\n%s\n%s", desc, orders[0], order, showRels(ref), showRels(got))
		}
	}
	x.Observe(desc, fmt.Sprint(ref))
	// the canonical list must also be what the default schedule gives
	s := c16Build(types, orders[0], rels)
	var base []j.Rel
	p := Try(func() { base = s.Rels() })
	if loose {
		for i := range base {
			base[i].ToOne, base[i].FromOne = false, false
		}
	}
	if p == "" && !reflect.DeepEqual(base, ref) {
		keys := func(l []j.Rel) []string {
			var o []string
			for _, r := range l {
				o = append(o, r.String())
			}
			sort.Strings(o)
			return o
		}
		_ = keys
		x.Fail("C16:rels:schedule-dependent", "schema %s: Rels() depends on map iteration order:\n%s\n%s", desc, showRels(base), showRels(ref))
	}
}

// c16Incremental builds one coherent schema through the API in every valid
// order of its construction steps, with Rels() called after every subset of the
// steps: the final listing must not depend on how the schema was built (nor on
// whether it was inspected while being built).
func c16Incremental(x *mc.Exec) {
	type step struct {
		name string
		do   func(s *j.Schema) error
		need []int // steps that must come first
	}
	steps := []step{
		{"AddType(a)", func(s *j.Schema) error { return s.AddType(j.Type{Name: "a"}) }, nil},
		{"AddType(ab)", func(s *j.Schema) error { return s.AddType(j.Type{Name: "ab"}) }, nil},
		{"AddRel(a.x->ab)", func(s *j.Schema) error {
			return s.AddRel("a", j.Rel{FromType: "a", FromName: "x", ToType: "ab"})
		}, []int{0}},
		{"AddTwoWayRel(a.bx<->ab.x)", func(s *j.Schema) error {
			return s.AddTwoWayRel(j.Rel{FromType: "a", FromName: "bx", ToOne: true, ToType: "ab", ToName: "x"})
		}, []int{0, 1}},
		{"AddTwoWayRel(ab.p<->ab.c)", func(s *j.Schema) error {
			return s.AddTwoWayRel(j.Rel{FromType: "ab", FromName: "p", ToOne: true, ToType: "ab", ToName: "c"})
		}, []int{1}},
	}
	// reference: built in the canonical order without intermediate Rels() calls
	ref := &j.Schema{}
	for _, st := range steps {
		if err := st.do(ref); err != nil {
			x.Fail("C16:incremental:reference-build", "%s failed: %v", st.name, err)
			return
		}
	}
	var want []j.Rel
	if p := Try(func() { want = ref.Rels() }); p != "" {
		x.Fail("C16:incremental:panic", "Rels() panicked: %s", p)
		return
	}
	// the explorer picks an order (respecting dependencies) and where Rels() is called
	done := map[int]bool{}
	s := &j.Schema{}
	desc := ""
	for len(done) < len(steps) {
		var ready []int
		for i, st := range steps {
			if done[i] {
				continue
			}
			ok := true
			for _, n := range st.need {
				if !done[n] {
					ok = false
				}
			}
			if ok {
				ready = append(ready, i)
			}
		}
		i := ready[x.Choose(len(ready), "next step")]
		if err := steps[i].do(s); err != nil {
			x.Fail("C16:incremental:step-failed", "%s failed after [%s]: %v", steps[i].name, desc, err)
			return
		}
		done[i] = true
		desc += steps[i].name + "; "
		if x.Bool("inspect with Rels()") {
			if p := Try(func() { _ = s.Rels() }); p != "" {
				x.Fail("C16:incremental:panic", "Rels() panicked after [%s]: %s", desc, p)
				return
			}
			desc += "Rels(); "
			x.R.Add("transitions", 1)
		}
	}
	var got []j.Rel
	if p := Try(func() { got = s.Rels() }); p != "" {
		x.Fail("C16:incremental:panic", "Rels() panicked after [%s]: %s", desc, p)
		return
	}
	x.R.Add("transitions", 1)
	x.Render(desc)
	x.R.Sample("incremental", desc)
	x.R.Mark("nontrivial", mc.Hash(desc))
	if errs := s.Check(); len(errs) > 0 {
		x.Fail("C16:incremental:incoherent", "the built schema is incoherent: %v", errs)
		return
	}
	if !reflect.DeepEqual(got, want) {
		x.Fail("C16:incremental:depends-on-history", "built as [%s] the schema lists %s, built in one go it lists %s", desc, showRels(got), showRels(want))
	}
}

// c16Underscore: every subset of four two-way pairs chosen so that pairs owned
// by the SAME type have the same underscore-joined name, in every type order.
func c16Underscore(x *mc.Exec) {
	types := []string{"a", "d", "c_d"}
	pairs := [][4]string{ // owner, name, target, inverse
		{"a", "b_c", "d", "e"},   // a_b_c_d_e
		{"a", "b", "c_d", "e"},   // a_b_c_d_e
		{"a", "e", "d", "b"},     // plain
		{"d", "e_c", "c_d", "f"}, // d_e_c_c_d_f
	}
	mask := 1 + x.Choose(15, "pairs")
	order := mc.Perm(3, x.Choose(6, "type order"))
	byName := map[string]*j.Type{}
	for _, t := range types {
		byName[t] = &j.Type{Name: t, Attrs: map[string]j.Attr{}, Rels: map[string]j.Rel{}}
	}
	n := 0
	desc := ""
	for i, p := range pairs {
		if mask&(1<<uint(i)) == 0 {
			continue
		}
		if _, dup := byName[p[2]].Rels[p[3]]; dup {
			return // the inverse name is taken by another chosen pair
		}
		r := j.Rel{FromType: p[0], FromName: p[1], ToOne: true, ToType: p[2], ToName: p[3], FromOne: true}
		byName[p[0]].Rels[p[1]] = r
		byName[p[2]].Rels[p[3]] = r.Invert()
		n++
		desc += fmt.Sprintf("%s.%s<->%s.%s ", p[0], p[1], p[2], p[3])
	}
	s := &j.Schema{}
	for _, i := range order {
		_ = s.AddType(*byName[types[i]])
	}
	var got []j.Rel
	if p := Try(func() { got = s.Rels() }); p != "" {
		x.Fail("C16:underscore:panic", "Rels() panicked on %s: %s", desc, p)
		return
	}
	x.R.Add("transitions", 1)
	x.Render(desc)
	x.R.Mark("nontrivial", mc.Hash(desc, fmt.Sprint(order)))
	if len(got) != n {
		x.Fail("C16:underscore:length", "schema %s (type order %v): Rels() lists %d relationships, there are %d two-way pairs: %s", desc, order, len(got), n, showRels(got))
	}
}

// c16StringHistory: the name string of a relationship must agree with the one of its inverse whatever other
// relationships were named before in the same process (a memo keyed ambiguously would go stale). Two two-way
// relationships whose type+name concatenations coincide (a.bc and ab.c towards the same far end); every ordered
// sequence of 0..3 String() calls on {x, inverse x, y, inverse y}, then the law is asserted on x or on y. The far
// end's name is unique per execution so that nothing memoised by an earlier execution is met again.
func c16StringHistory(x *mc.Exec) {
	var seq []int
	n := x.Choose(4, "calls")
	for i := 0; i < n; i++ {
		seq = append(seq, x.Choose(4, "call"))
	}
	which := x.Choose(2, "asserted on")
	u := fmt.Sprintf("e%d_%v_%d", n, seq, which)
	rx := j.Rel{FromType: "a", FromName: "bc", ToOne: true, ToType: "d", ToName: u}
	ry := j.Rel{FromType: "ab", FromName: "c", ToOne: true, ToType: "d", ToName: u}
	vals := []j.Rel{rx, rx.Invert(), ry, ry.Invert()}
	x.R.Add("transitions", 1)
	x.R.Mark("nontrivial", mc.Hash(u))
	first := map[int]string{}
	var sig, fail string
	p := Try(func() {
		for _, c := range seq {
			s := vals[c].String()
			if f, ok := first[c]; ok && f != s {
				sig, fail = "C16:string-history:unstable", fmt.Sprintf("String(%s) = %q, earlier %q (calls %v)", showRel(vals[c]), s, f, seq)
				return
			}
			first[c] = s
		}
		r := vals[2*which]
		if a, b := r.String(), r.Invert().String(); a != b {
			sig, fail = "C16:string-history:asymmetric", fmt.Sprintf("after String() on %v of {x=a.bc, inverse x, y=ab.c, inverse y}: String(%s) = %q but String(inverse) = %q", seq, showRel(r), a, b)
		}
	})
	if p != "" {
		x.Fail("C16:string-history:panic", "calls %v: %s", seq, p)
	} else if fail != "" {
		x.Fail(sig, "%s", fail)
	}
}

func init() {
	Register(&Prop{
		ID: "C16",
		Rule: "Engine A: (a) ALL Rel values with FromType, FromName, ToType, ToName in {\"\",a,b,ab,bc,c,a_b,A,Ab,\" \"} (names whose concatenations and _-joined keys collide, that differ by letter case only or consist of a blank) x 4 cardinality pairs = 40000 values, laws asserted directly (involution, idempotence, range, one-way untouched, symmetric Normalize and String for two-way relationships with four non-empty names; self-inverse only with equal cardinalities); (b) every coherent schema over types {a,ab}(,b) and relationship names {x,bx}(,a_x) built slot by slot (absent / one-way to any type / two-way with any later free slot / self-inverse), in three shapes (two types; a single type; halves whose cardinality fields were filled in independently, as BuildType does - pairs then identified by names), every order of AddType, and every map-iteration order of one loop instance inside Rels() (deviation bound 1). (c) one coherent schema built through AddType/AddRel/AddTwoWayRel in every dependency-respecting order of its 5 construction steps with Rels() called after every subset of the steps; the final listing must equal the one of a schema built in one go. (d) every ordered sequence of 0..3 String() calls on two relationships with coinciding type+name concatenations and their inverses, after which the name string of a relationship and of its inverse must still agree (170 histories, names fresh per history). Non-trivial = two-way relationship value / schema with at least one two-way pair / every incremental build",
		Assumptions: []string{"relationships in the symmetric laws have non-empty FromType, FromName, ToType, ToName (what a schema can hold)", "for pairs whose halves disagree on the cardinality fields, which half's cardinalities the listing shows is not judged"},
		Harnesses: []Harness{
			{Name: "C16/laws", Body: c16Laws, ShardDepth: 1},
			{Name: "C16/rels", Body: c16Rels, Dev: func() int { return 1 }},
			{Name: "C16/incremental", Body: c16Incremental},
			{Name: "C16/underscore", Body: c16Underscore},
			{Name: "C16/string-history", Body: c16StringHistory},
		},
	})
}
