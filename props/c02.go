package props

import (
	"encoding/json"
	"fmt"
	"reflect"
	"strings"

	j "github.com/mfcochauxlaberge/jsonapi"

	"verif/mc"
)

// C02 — documents survive a marshal/unmarshal round trip.

func canonJSON(v any) string {
	b, err := json.Marshal(v)
	if err != nil {
		return "ERR:" + err.Error()
	}
	var back any
	_ = json.Unmarshal(b, &back)
	b, _ = json.Marshal(back)
	return string(b)
}

func sameJSONMap(a, b any) bool {
	la, lb := reflect.ValueOf(a).Len(), reflect.ValueOf(b).Len()
	if la == 0 && lb == 0 {
		return true
	}
	return canonJSON(a) == canonJSON(b)
}

func sameError(a, b j.Error) string {
	switch {
	case a.ID != b.ID:
		return "id"
	case a.Code != b.Code:
		return "code"
	case a.Status != b.Status:
		return "status"
	case a.Title != b.Title:
		return "title"
	case a.Detail != b.Detail:
		return "detail"
	case !sameJSONMap(a.Links, b.Links):
		return "links"
	case !sameJSONMap(a.Source, b.Source):
		return "source"
	case !sameJSONMap(map[string]any(a.Meta), map[string]any(b.Meta)):
		return "meta"
	}
	return ""
}

// selectedFor returns the fields to compare for a resource of the given type.
func (c *DocCase) selectedFor(typ j.Type) []string {
	sel := []string{}
	for _, f := range c.Fields[typ.Name] {
		if _, isRel := typ.Rels[f]; isRel {
			asked := false
			for _, n := range c.Doc.RelData[typ.Name] {
				if n == f {
					asked = true
				}
			}
			if !asked {
				continue
			}
		}
		sel = append(sel, f)
	}
	return sel
}

func c02RoundTrip(x *mc.Exec, c *DocCase, sigBase string) {
	var out []byte
	var err error
	p := Try(func() { out, err = j.MarshalDocument(c.Doc, c.URL) })
	x.R.Add("transitions", 1)
	if p != "" {
		x.Fail(sigBase+":marshal-panic", "%s: MarshalDocument panicked: %s", c.Desc, p)
		return
	}
	if err != nil {
		x.Fail(sigBase+":marshal-error", "%s: MarshalDocument failed: %v", c.Desc, err)
		return
	}
	// copy what the comparison needs before unmarshaling (marshal may reorder included)
	var doc2 *j.Document
	if c02ExploreMemberOrder {
		WithMapDevIn(x, map[string]bool{"UnmarshalResource": true, "UnmarshalDocument": true}, func() {
			p = Try(func() { doc2, err = j.UnmarshalDocument(out, c.Schema) })
		})
	} else {
		p = Try(func() { doc2, err = j.UnmarshalDocument(out, c.Schema) })
	}
	x.R.Add("transitions", 1)
	x.Observe(string(out), p, err != nil)
	if p != "" {
		x.Fail(sigBase+":unmarshal-panic", "%s: UnmarshalDocument panicked on its own output: %s\n  %.400s", c.Desc, p, out)
		return
	}
	if err != nil {
		x.Fail(sigBase+":unmarshal-error", "%s: UnmarshalDocument rejected MarshalDocument's output: %v\n  %.400s", c.Desc, err, out)
		return
	}
	x.R.Mark("nontrivial", mc.Hash(string(out)))
	fail := func(what, f string, a ...any) {
		x.Fail(sigBase+":"+c.DataKind+":"+what, c.Desc+": "+fmt.Sprintf(f, a...)+fmt.Sprintf("\n  payload %.400s", out))
	}
	asList := func(d any) ([]j.Resource, bool) {
		col, ok := d.(j.Collection)
		if !ok {
			return nil, false
		}
		var l []j.Resource
		for i := 0; i < col.Len(); i++ {
			l = append(l, col.At(i))
		}
		return l, true
	}
	if pp := Try(func() {
		switch c.DataKind {
		case "errors":
			if doc2.Data != nil {
				fail("data-with-errors", "a document with errors came back with data %T", doc2.Data)
			}
			if len(doc2.Errors) != len(c.Doc.Errors) {
				fail("error-count", "%d errors came back as %d", len(c.Doc.Errors), len(doc2.Errors))
				return
			}
			for i := range c.Doc.Errors {
				if m := sameError(c.Doc.Errors[i], doc2.Errors[i]); m != "" {
					fail("error-member:"+m, "error %d: member %s differs: %+v became %+v", i, m, c.Doc.Errors[i], doc2.Errors[i])
				}
			}
		case "null":
			if doc2.Data != nil {
				fail("kind", "null data came back as %T", doc2.Data)
			}
		case "single":
			r, ok := doc2.Data.(j.Resource)
			if !ok {
				fail("kind", "single resource came back as %T", doc2.Data)
				return
			}
			if d := CompareRes(c.Primary[0], r, c.selectedFor(c.Primary[0].GetType())); d != nil {
				fail(d.What, "primary resource: %s", d.Msg)
			}
		case "list":
			l, ok := asList(doc2.Data)
			if !ok {
				fail("kind", "collection came back as %T", doc2.Data)
				return
			}
			if len(l) != len(c.Primary) {
				fail("length", "collection of %d came back with %d members", len(c.Primary), len(l))
				return
			}
			for i := range l {
				if d := CompareRes(c.Primary[i], l[i], c.selectedFor(c.Primary[i].GetType())); d != nil {
					fail("member:"+d.What, "member %d: %s", i, d.Msg)
				}
			}
		case "identifier":
			r, ok := doc2.Data.(j.Resource)
			if !ok {
				fail("kind", "identifier came back as %T", doc2.Data)
				return
			}
			if r.GetType().Name != c.Idents[0].Type || r.Get("id") != c.Idents[0].ID {
				fail("identifier", "identifier %+v came back as %s/%v", c.Idents[0], r.GetType().Name, r.Get("id"))
			}
		case "identifiers":
			l, ok := asList(doc2.Data)
			if !ok {
				fail("kind", "identifier list came back as %T", doc2.Data)
				return
			}
			if len(l) != len(c.Idents) {
				fail("length", "%d identifiers came back as %d", len(c.Idents), len(l))
				return
			}
			for i := range l {
				if l[i].GetType().Name != c.Idents[i].Type || l[i].Get("id") != c.Idents[i].ID {
					fail("identifier", "identifier %d %+v came back as %s/%v", i, c.Idents[i], l[i].GetType().Name, l[i].Get("id"))
				}
			}
		}
		if c.DataKind != "errors" {
			want := map[string]j.Resource{}
			for _, r := range c.Doc.Included {
				want[r.GetType().Name+"/"+r.Get("id").(string)] = r
			}
			got := map[string]j.Resource{}
			for _, r := range doc2.Included {
				got[r.GetType().Name+"/"+r.Get("id").(string)] = r
			}
			if !reflect.DeepEqual(SortedKeys(want), SortedKeys(got)) || len(doc2.Included) != len(c.Doc.Included) {
				fail("included-set", "included %v came back as %v (%d entries)", SortedKeys(want), SortedKeys(got), len(doc2.Included))
			} else {
				for k, w := range want {
					if d := CompareRes(w, got[k], c.selectedFor(w.GetType())); d != nil {
						fail("included:"+d.What, "included %s: %s", k, d.Msg)
					}
				}
			}
		}
		if !sameJSONMap(map[string]any(c.Doc.Meta), map[string]any(doc2.Meta)) {
			fail("meta", "meta %s came back as %s", canonJSON(c.Doc.Meta), canonJSON(doc2.Meta))
		}
	}); pp != "" {
		fail("compare-panic", "inspecting the unmarshaled document panicked: %s", pp)
	}
}

// c02ExploreMemberOrder: the member-visiting order inside UnmarshalResource /
// UnmarshalDocument is under explorer control (deviation bound 1) in C02/docs.
var c02ExploreMemberOrder = false

func c02Docs(x *mc.Exec) {
	c02ExploreMemberOrder = true
	defer func() { c02ExploreMemberOrder = false }()
	c := GenDoc(x, true)
	x.R.Sample("doc", c.Desc)
	c02RoundTrip(x, c, "C02:docs")
}

// error objects: every subset of the 8 members; pairs and triples of 6
// representative errors in every order
func c02Errors(x *mc.Exec) {
	full := func(tag string) j.Error {
		e := j.NewError()
		e.ID, e.Code, e.Status, e.Title, e.Detail = "id-"+tag, "code<"+tag+">", "40"+tag, "title \""+tag+"\"", "detail\n"+tag
		e.Links = map[string]string{"about": "https://e/" + tag + "?a=b&c"}
		e.Source = map[string]any{"pointer": "/data/" + tag, "parameter": "p"}
		e.Meta = j.Meta{"n": 1.0, "l": []any{"x", nil}, "o": map[string]any{"k": tag}}
		return e
	}
	subset := func(mask int, tag string) j.Error {
		f, e := full(tag), j.NewError()
		if mask&1 != 0 {
			e.ID = f.ID
		}
		if mask&2 != 0 {
			e.Code = f.Code
		}
		if mask&4 != 0 {
			e.Status = f.Status
		}
		if mask&8 != 0 {
			e.Title = f.Title
		}
		if mask&16 != 0 {
			e.Detail = f.Detail
		}
		if mask&32 != 0 {
			e.Links = f.Links
		}
		if mask&64 != 0 {
			e.Source = f.Source
		}
		if mask&128 != 0 {
			e.Meta = f.Meta
		}
		return e
	}
	c := &DocCase{DataKind: "errors", Schema: BuildSchema([]TypeD{docT, docU}, []bool{true, true})}
	c.URL = AllFieldsURL(c.Schema, "t")
	doc := &j.Document{}
	mode := x.Choose(5, "mode")
	switch mode {
	case 3:
		// every error the library builds itself, with arguments that are empty, need escaping or are long
		args := []string{"", "a", "x<\"y\">&\\ \u00e9", strings.Repeat("\u00e9", 40)}
		a := args[x.Choose(len(args), "argument")]
		ctors := c02ErrCtors(a)
		k := x.Choose(len(ctors), "constructor")
		doc.Errors = []j.Error{ctors[k].mk()}
		c.Desc = fmt.Sprintf("library error %s(%q)", ctors[k].name, a)
	case 4:
		// members that are present but degenerate: empty strings inside source / links / meta, empty maps
		e := j.NewError()
		e.Title = "t"
		vals := []any{"", "v", nil, 0.0, false, []any{}, map[string]any{}}
		e.Source = map[string]any{"pointer": vals[x.Choose(len(vals), "pointer")]}
		if x.Bool("parameter too") {
			e.Source["parameter"] = vals[x.Choose(len(vals), "parameter")]
		}
		e.Links = map[string]string{"about": []string{"", "https://e"}[x.Choose(2, "about")]}
		e.Meta = j.Meta{"k": vals[x.Choose(len(vals), "meta")]}
		doc.Errors = []j.Error{e}
		c.Desc = fmt.Sprintf("error with source %v links %v meta %v", e.Source, e.Links, e.Meta)
	case 0:
		mask := x.Choose(256, "member subset")
		doc.Errors = []j.Error{subset(mask, "1")}
		c.Desc = fmt.Sprintf("one error with member subset %08b", mask)
	case 1:
		reps := []int{0, 1, 4 + 8, 32, 64 + 128, 255}
		n := 2 + x.Choose(2, "count")
		c.Desc = "errors with member subsets"
		for i := 0; i < n; i++ {
			k := x.Choose(len(reps), "error")
			doc.Errors = append(doc.Errors, subset(reps[k], fmt.Sprint(k)))
			c.Desc += fmt.Sprintf(" %08b", reps[k])
		}
	case 2:
		// errors together with data, included and meta: errors win
		doc.Errors = []j.Error{subset(255, "1")}
		doc.Data = docRes(docT, true, "t1", 0)
		doc.Included = []j.Resource{docRes(docU, true, "u1", 0)}
		doc.Meta = j.Meta{"m": "v"}
		c.Desc = "errors together with data, included and meta"
	}
	c.Doc = doc
	x.Render(c.Desc)
	x.R.Sample("errors", c.Desc)
	c02RoundTrip(x, c, "C02:errors")
}

// c02Large: collections and included lists well beyond any small-input fast
// path (chunked or parallel marshaling, sort thresholds), at sizes around powers
// of two and not divisible by small worker counts.
func c02Large(x *mc.Exec) {
	sizes := []int{13, 16, 17, 31, 33, 63, 64, 65, 66, 67, 100, 127, 129, 255, 257, 1001}
	n := sizes[x.Choose(len(sizes), "size")]
	impl := x.Choose(3, "collection")
	where := x.Choose(2, "where")
	soft := impl != 2
	c := &DocCase{DataKind: "list", Schema: BuildSchema([]TypeD{docT, docU, docQ, docK}, []bool{soft, true, true, true})}
	var col j.Collection
	switch impl {
	case 0:
		col = &j.Resources{}
	case 1:
		typ := docT.SoftType()
		sc := &j.SoftCollection{}
		sc.SetType(&typ)
		col = sc
	case 2:
		col = j.WrapCollection(docT.NewRes(false))
	}
	doc := &j.Document{PrePath: "https://x", RelData: AllRelData(c.Schema)}
	frag := []string{"t"}
	var rs []j.Resource
	for i := 0; i < n; i++ {
		// ids in an order that is neither sorted nor reversed
		rs = append(rs, docRes(docT, soft, fmt.Sprintf("r%04d", (i*7919)%n), i))
	}
	if where == 0 {
		for _, r := range rs {
			col.Add(r)
		}
		c.Primary = rs
		doc.Data = col
	} else {
		one := docRes(docT, soft, "solo", 1)
		doc.Data, c.Primary, c.DataKind = one, []j.Resource{one}, "single"
		doc.Included = rs
		frag = []string{"t", "solo"}
	}
	fields := map[string][]string{}
	for _, t := range c.Schema.Types {
		fields[t.Name] = FieldNames(t)
	}
	c.Fields = fields
	c.Doc = doc
	c.URL = &j.URL{Fragments: frag, ResType: "t", IsCol: len(frag) == 1,
		Params: &j.Params{Fields: fields, RelData: map[string][]string{}, SortingRules: []string{}, Include: [][]j.Rel{}}}
	c.Desc = fmt.Sprintf("%d resources in %s (%s)", n, []string{"the primary collection", "included"}[where], []string{"Resources", "SoftCollection", "WrapperCollection"}[impl])
	x.Render(c.Desc)
	x.R.Sample("large", c.Desc)
	c02RoundTrip(x, c, "C02:large")
}

// c02TwoStructs: two struct definitions declare the same JSON:API type name with
// different fields (two versions of a program's model, each in its own schema,
// both used in one process); documents of both round-trip, in both orders.
func c02TwoStructs(x *mc.Exec) {
	v1 := TypeD{Name: "t", Attrs: []AttrD{{"s", kStr}}, Rels: []RelD{{"one", true, "u", ""}}}
	v2 := TypeD{Name: "t", Attrs: []AttrD{{"colour", kStr}, {"s", kStr}, {"n", kPInt}}, Rels: []RelD{{"many", false, "u", ""}, {"one", true, "u", ""}}}
	order := [][]TypeD{{v1, v2}, {v2, v1}, {v2, v1, v2}}[x.Choose(3, "order")]
	coll := x.Bool("collection")
	for i, d := range order {
		c := &DocCase{DataKind: "single", Schema: BuildSchema([]TypeD{d, docU}, []bool{false, true})}
		mk := func(id string) j.Resource {
			r := d.NewRes(false)
			r.Set("id", id)
			r.Set("s", "v-"+id)
			r.Set("one", "u1")
			if len(d.Attrs) > 1 {
				r.Set("colour", "red")
				r.Set("n", Ptr(int(7)))
				r.Set("many", []string{"u2", "u1"})
			}
			return r
		}
		doc := &j.Document{PrePath: "https://x", RelData: AllRelData(c.Schema)}
		frag := []string{"t", "a"}
		if coll {
			col := j.WrapCollection(d.NewRes(false))
			col.Add(mk("a"))
			col.Add(mk("b"))
			doc.Data, c.Primary, c.DataKind = col, []j.Resource{mk("a"), mk("b")}, "list"
			frag = []string{"t"}
		} else {
			r := mk("a")
			doc.Data, c.Primary = r, []j.Resource{r}
		}
		fields := map[string][]string{}
		for _, t := range c.Schema.Types {
			fields[t.Name] = FieldNames(t)
		}
		c.Fields, c.Doc = fields, doc
		c.URL = &j.URL{Fragments: frag, ResType: "t", IsCol: coll,
			Params: &j.Params{Fields: fields, RelData: map[string][]string{}, SortingRules: []string{}, Include: [][]j.Rel{}}}
		c.Desc = fmt.Sprintf("step %d of %d: struct version with %d attributes (collection: %v)", i+1, len(order), len(d.Attrs), coll)
		x.Render(c.Desc)
		c02RoundTrip(x, c, "C02:two-structs")
	}
	x.R.Mark("nontrivial", mc.Hash(x.Choices()))
}

// c02EditedType: the type of soft resources is edited through its pointer (one field out, another
// in, so that the number of fields stays the same; or only out; or only in) after values were set and
// before anything is read again; the document then round-trips with the type as it is now.
func c02EditedType(x *mc.Exec) {
	edit := x.Choose(5, "edit")
	coll := x.Bool("collection")
	typ := docT.SoftType()
	mk := func(id string, v int) *j.SoftResource {
		r := &j.SoftResource{Type: &typ}
		r.SetID(id)
		r.Set("s", "v"+id)
		r.Set("n", Ptr(v))
		r.Set("one", "u1")
		r.Set("many", []string{"u2", "u1"})
		return r
	}
	rs := []*j.SoftResource{mk("a", 1), mk("b", 2)}
	names := []string{"RemoveAttr(n)+AddAttr(nick)", "RemoveAttr(n)", "AddAttr(nick)", "RemoveRel(many)+AddRel(peers)", "RemoveAttr(s)+AddRel(peers)"}
	switch edit {
	case 0:
		typ.RemoveAttr("n")
		_ = typ.AddAttr(j.Attr{Name: "nick", Type: j.AttrTypeString})
	case 1:
		typ.RemoveAttr("n")
	case 2:
		_ = typ.AddAttr(j.Attr{Name: "nick", Type: j.AttrTypeString})
	case 3:
		typ.RemoveRel("many")
		_ = typ.AddRel(j.Rel{FromType: "t", FromName: "peers", ToType: "u"})
	case 4:
		typ.RemoveAttr("s")
		_ = typ.AddRel(j.Rel{FromType: "t", FromName: "peers", ToType: "u"})
	}
	schema := &j.Schema{}
	_ = schema.AddType(typ.Copy())
	_ = schema.AddType(docU.SoftType())
	c := &DocCase{DataKind: "single", Schema: schema}
	doc := &j.Document{PrePath: "https://x", RelData: AllRelData(schema)}
	frag := []string{"t", "a"}
	if coll {
		col := &j.SoftCollection{}
		col.SetType(&typ)
		col.Add(rs[0])
		col.Add(rs[1])
		doc.Data, c.DataKind = col, "list"
		c.Primary = []j.Resource{col.At(0), col.At(1)}
		frag = []string{"t"}
	} else {
		doc.Data, c.Primary = rs[0], []j.Resource{rs[0]}
	}
	fields := map[string][]string{}
	for _, t := range schema.Types {
		fields[t.Name] = FieldNames(t)
	}
	c.Fields, c.Doc = fields, doc
	c.URL = &j.URL{Fragments: frag, ResType: "t", IsCol: coll,
		Params: &j.Params{Fields: fields, RelData: map[string][]string{}, SortingRules: []string{}, Include: [][]j.Rel{}}}
	c.Desc = fmt.Sprintf("soft resources whose type was edited through its pointer (%s) after their values were set (collection: %v)", names[edit], coll)
	x.Render(c.Desc)
	x.R.Mark("nontrivial", mc.Hash(c.Desc))
	c02RoundTrip(x, c, "C02:edited-type")
}

type c02Ctor struct {
	name string
	mk   func() j.Error
}

func c02ErrCtors(a string) []c02Ctor {
	return []c02Ctor{
		{"NewErrBadRequest", func() j.Error { return j.NewErrBadRequest(a, a) }},
		{"NewErrMalformedFilterParameter", func() j.Error { return j.NewErrMalformedFilterParameter(a) }},
		{"NewErrInvalidPageNumberParameter", func() j.Error { return j.NewErrInvalidPageNumberParameter(a) }},
		{"NewErrInvalidPageSizeParameter", func() j.Error { return j.NewErrInvalidPageSizeParameter(a) }},
		{"NewErrInvalidFieldValueInBody", func() j.Error { return j.NewErrInvalidFieldValueInBody(a, a, a) }},
		{"NewErrDuplicateFieldInFieldsParameter", func() j.Error { return j.NewErrDuplicateFieldInFieldsParameter(a, a) }},
		{"NewErrMissingDataMember", func() j.Error { return j.NewErrMissingDataMember() }},
		{"NewErrUnknownFieldInBody", func() j.Error { return j.NewErrUnknownFieldInBody(a, a) }},
		{"NewErrUnknownFieldInURL", func() j.Error { return j.NewErrUnknownFieldInURL(a) }},
		{"NewErrUnknownParameter", func() j.Error { return j.NewErrUnknownParameter(a) }},
		{"NewErrUnknownRelationshipInPath", func() j.Error { return j.NewErrUnknownRelationshipInPath(a, a, a) }},
		{"NewErrUnknownTypeInURL", func() j.Error { return j.NewErrUnknownTypeInURL(a) }},
		{"NewErrUnknownFieldInFilterParameter", func() j.Error { return j.NewErrUnknownFieldInFilterParameter(a) }},
		{"NewErrUnknownOperatorInFilterParameter", func() j.Error { return j.NewErrUnknownOperatorInFilterParameter(a) }},
		{"NewErrInvalidValueInFilterParameter", func() j.Error { return j.NewErrInvalidValueInFilterParameter(a, a) }},
		{"NewErrUnknownCollationInFilterParameter", func() j.Error { return j.NewErrUnknownCollationInFilterParameter(a) }},
		{"NewErrUnknownFilterParameterLabel", func() j.Error { return j.NewErrUnknownFilterParameterLabel(a) }},
		{"NewErrUnauthorized", j.NewErrUnauthorized}, {"NewErrForbidden", j.NewErrForbidden}, {"NewErrNotFound", j.NewErrNotFound},
		{"NewErrPayloadTooLarge", j.NewErrPayloadTooLarge}, {"NewErrRequestURITooLong", j.NewErrRequestURITooLong},
		{"NewErrUnsupportedMediaType", j.NewErrUnsupportedMediaType}, {"NewErrTooManyRequests", j.NewErrTooManyRequests},
		{"NewErrRequestHeaderFieldsTooLarge", j.NewErrRequestHeaderFieldsTooLarge}, {"NewErrInternalServerError", j.NewErrInternalServerError},
		{"NewErrServiceUnavailable", j.NewErrServiceUnavailable}, {"NewErrNotImplemented", j.NewErrNotImplemented},
	}
}

// c02Interleaved: a payload must still be good after OTHER documents have been
// marshaled (a marshaler that hands out pooled or reused memory breaks this):
// marshal A, marshal B, marshal A', then unmarshal the retained payloads.
func c02Interleaved(x *mc.Exec) {
	mk := func(i int) *DocCase {
		return c11Base(i, c11Default())
	}
	a, b := x.Choose(len(c11BaseNames), "first document"), x.Choose(len(c11BaseNames), "second document")
	ca, cb := mk(a), mk(b)
	ref, f := c11Marshal(mk(a))
	if f != "" {
		return
	}
	pa, fa := c11Marshal(ca)
	pb, fb := c11Marshal(cb)
	x.R.Add("transitions", 3)
	x.R.Mark("nontrivial", mc.Hash("interleaved", a, b))
	x.Render(fmt.Sprintf("marshal %q, then %q, then read the first payload", c11BaseNames[a], c11BaseNames[b]))
	if fa != "" || fb != "" || len(pb) == 0 {
		return
	}
	if string(pa) != string(ref) {
		x.Fail("C02:interleaved:payload-overwritten", "the payload of %q changed after %q was marshaled:\n  was: %.200s\n  now: %.200s", c11BaseNames[a], c11BaseNames[b], ref, pa)
		return
	}
	d, err := j.UnmarshalDocument(pa, ca.Schema)
	if err != nil || d == nil {
		x.Fail("C02:interleaved:unreadable", "the payload of %q is rejected after %q was marshaled: %v", c11BaseNames[a], c11BaseNames[b], err)
	}
}

func init() {
	Register(&Prop{
		ID:          "C02",
		Rule:        "Engine A, all choices Full: the complete product 19 primary-data kinds (incl. a resource without ID and resources with one attribute of every kind at its smallest / largest value, soft and struct-backed) x 5 included lists (ids colliding across types and not, mixed implementations) x 4 metas (nil, {}, scalars, nested/array/null/escapes) x 3 error lists x 6 prefixes x 3 field selections x 2 relationship-data requests; plus every one of the 256 member subsets of one error object, all pairs and triples (with repetition, every order) of 6 representative errors, and errors together with data, every error constructor of the library x 4 argument strings (empty, plain, escape-needing, 40 multi-byte runes), errors whose source/links/meta members are empty strings, null or empty containers. and 16 sizes from 13 to 1001 (around powers of two, not divisible by small worker counts) x 3 collection implementations x {primary collection, included list}, ids in scrambled order, and two struct definitions of one type name (each in its own schema) used one after the other, and soft resources whose type was edited through its pointer (5 edits, incl. one field out and another in) between setting their values and marshaling. and every ordered pair of 8 richer documents marshaled one after the other before the first payload is read back. Each document is marshaled and unmarshaled against the same schema; oracle written in the harness: kind of primary data, members in order by (type,id,selected values), included as a set keyed by (type,id), meta and error members as canonical JSON. Non-trivial = distinct marshaled payload",
		Assumptions: []string{"an Identifier document may come back as a single field-less resource with the same type and id (JSON:API cannot tell them apart); weaker reading chosen deliberately", "empty map == absent for meta / links / source"},
		Harnesses: []Harness{
			{Name: "C02/docs", Body: c02Docs, Dev: func() int { return 1 }, ShardDepth: 3},
			{Name: "C02/errors", Body: c02Errors},
			{Name: "C02/interleaved", Body: c02Interleaved},
			{Name: "C02/large", Body: c02Large},
			{Name: "C02/two-structs", Body: c02TwoStructs},
			{Name: "C02/edited-type", Body: c02EditedType},
		},
	})
}
