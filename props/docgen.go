package props

import (
	"encoding/json"
	"fmt"
	"math"
	"sort"
	"strings"

	j "github.com/mfcochauxlaberge/jsonapi"

	"verif/mc"
)

// Shared document space of C02, C03 and C11.

var (
	docT = TypeD{Name: "t", Attrs: []AttrD{{"s", kStr}, {"n", kPInt}}, Rels: []RelD{{"one", true, "u", "back"}, {"many", false, "u", ""}}}
	docU = TypeD{Name: "u", Attrs: []AttrD{{"b", kBool}}, Rels: []RelD{{"back", false, "t", "one"}}}
	// a soft type whose name and ids need JSON escaping
	docQ = TypeD{Name: "q\"t\\é", Attrs: []AttrD{{"s", kStr}}}
)

// docK has one attribute of every kind; its resources hold each kind's extreme values
var docK = func() TypeD {
	d := TypeD{Name: "k"}
	for i, k := range AllKinds() {
		d.Attrs = append(d.Attrs, AttrD{fmt.Sprintf("k%02d", i), k})
	}
	return d
}()

// docKRes: variant 0 = the smallest value of every kind, 1 = the largest
func docKRes(soft bool, id string, variant int) j.Resource {
	r := docK.NewRes(soft)
	r.Set("id", id)
	for _, a := range docK.Attrs {
		base := BaseValues(a.K.Type, 0)
		v := base[(4-variant)%len(base)]
		if a.K.Nullable {
			v = Ptr(v)
		}
		r.Set(a.Name, v)
	}
	return r
}

const weirdID = "i\"d\\<é>  &"

type DocCase struct {
	Schema *j.Schema
	Doc    *j.Document
	URL    *j.URL
	Desc   string
	// expectations for round trips
	DataKind string // "null", "single", "list", "identifier", "identifiers", "errors"
	Primary  []j.Resource
	Idents   []j.Identifier
	Fields   map[string][]string
}

func docRes(d TypeD, soft bool, id string, variant int) j.Resource {
	r := d.NewRes(soft)
	r.Set("id", id)
	switch d.Name {
	case "t":
		r.Set("s", []string{"v", "", "x<y>&\"z\" "}[variant%3])
		if variant%2 == 1 {
			r.Set("n", Ptr(int(variant)))
		}
		r.Set("one", []string{"u1", "", "u2"}[variant%3])
		r.Set("many", [][]string{{"u2", "u1", "u\x01\x7f\U000E0001"}, {}, {"u3"}}[variant%3])
	case "u":
		r.Set("b", variant%2 == 0)
		r.Set("back", [][]string{{"t1"}, {}}[variant%2])
	default:
		r.Set("s", "w")
	}
	return r
}

var docDataKinds = []string{"nil", "soft", "wrap", "weird", "Resources0", "Resources1", "Resources3", "SoftCol0", "SoftCol2", "WrapCol0", "WrapCol2", "Identifier", "Identifiers0", "Identifiers2",
	"emptyid", "kinds-soft-min", "kinds-soft-max", "kinds-wrap-min", "kinds-wrap-max"}

// GenDoc lets the explorer pick one document of the shared space.
// errorsDim: how many error variants to include (0 = none).
func GenDoc(x *mc.Exec, withErrors bool) *DocCase {
	c := &DocCase{}
	softT := true
	kind := docDataKinds[x.Choose(len(docDataKinds), "data")]
	inc := x.Choose(5, "included")
	meta := x.Choose(4, "meta")
	nerr := 0
	if withErrors {
		nerr = x.Choose(3, "errors")
	}
	prefixes := []string{"", "/", "https://x", "https://x/", "https://x/api//", "file:///"}
	prefix := prefixes[x.Choose(len(prefixes), "prefix")]
	sel := x.Choose(3, "selection")
	rd := x.Choose(2, "reldata")

	if kind == "wrap" || strings.HasPrefix(kind, "WrapCol") {
		softT = false
	}
	c.Schema = BuildSchema([]TypeD{docT, docU, docQ, docK}, []bool{softT, inc%2 == 0, true, !strings.HasPrefix(kind, "kinds-wrap")})
	doc := &j.Document{PrePath: prefix}
	frag := []string{"t"}
	c.DataKind = "list"
	switch kind {
	case "nil":
		c.DataKind = "null"
		frag = []string{"t", "none"}
	case "soft", "wrap":
		r := docRes(docT, softT, "t1", 0)
		doc.Data, c.Primary, c.DataKind = r, []j.Resource{r}, "single"
		frag = []string{"t", "t1"}
	case "emptyid":
		// a resource that has not been given an ID yet
		r := docRes(docT, true, "", 1)
		doc.Data, c.Primary, c.DataKind = r, []j.Resource{r}, "single"
		frag = []string{"t", ""}
	case "kinds-soft-min", "kinds-soft-max", "kinds-wrap-min", "kinds-wrap-max":
		variant := 0
		if strings.HasSuffix(kind, "max") {
			variant = 1
		}
		r := docKRes(strings.HasPrefix(kind, "kinds-soft"), "k1", variant)
		doc.Data, c.Primary, c.DataKind = r, []j.Resource{r}, "single"
		frag = []string{"k", "k1"}
	case "weird":
		r := docRes(docQ, true, weirdID, 0)
		doc.Data, c.Primary, c.DataKind = r, []j.Resource{r}, "single"
		frag = []string{docQ.Name, weirdID}
	case "Resources0", "Resources1", "Resources3":
		n := int(kind[len(kind)-1] - '0')
		col := &j.Resources{}
		all := []j.Resource{docRes(docT, true, "t2", 1), docRes(docU, inc%2 == 0, "t2", 0), docRes(docT, true, "t1", 2)}
		for i := 0; i < n; i++ {
			col.Add(all[i])
			c.Primary = append(c.Primary, all[i])
		}
		doc.Data = col
	case "SoftCol0", "SoftCol2":
		typ := docT.SoftType()
		col := &j.SoftCollection{}
		col.SetType(&typ)
		if kind == "SoftCol2" {
			for i, id := range []string{"t2", "t1"} {
				r := docRes(docT, true, id, i+1)
				col.Add(r)
				c.Primary = append(c.Primary, r)
			}
		}
		doc.Data = col
	case "WrapCol0", "WrapCol2":
		col := j.WrapCollection(docT.NewRes(false))
		if kind == "WrapCol2" {
			for i, id := range []string{"t2", "t1"} {
				r := docRes(docT, false, id, i+1)
				col.Add(r)
				c.Primary = append(c.Primary, r)
			}
		}
		doc.Data = col
	case "Identifier":
		id := j.Identifier{ID: weirdID, Type: "t"}
		doc.Data, c.Idents, c.DataKind = id, []j.Identifier{id}, "identifier"
		frag = []string{"t", "t1", "relationships", "one"}
	case "Identifiers0":
		doc.Data, c.DataKind = j.Identifiers{}, "identifiers"
		frag = []string{"t", "t1", "relationships", "many"}
	case "Identifiers2":
		ids := j.Identifiers{{ID: "u2", Type: "u"}, {ID: "u1", Type: "u"}}
		doc.Data, c.Idents, c.DataKind = ids, ids, "identifiers"
		frag = []string{"t", "t1", "relationships", "many"}
	}
	switch inc {
	case 1:
		doc.Included = []j.Resource{docRes(docU, false, "u1", 0)}
	case 2:
		doc.Included = []j.Resource{docRes(docU, true, "x1", 1), docRes(docT, true, "x1", 1)}
	case 3:
		doc.Included = []j.Resource{docRes(docU, false, "u2", 1), docRes(docU, false, "u1", 0), docRes(docQ, true, weirdID, 0)}
	case 4:
		doc.Included = []j.Resource{docRes(docU, true, "u9", 0), docRes(docU, true, "u10", 1)}
	}
	switch meta {
	case 1:
		doc.Meta = j.Meta{}
	case 2:
		doc.Meta = j.Meta{"s": "str", "n": 1.5, "t": true, "big": uint64(math.MaxUint64), "maxint": int64(math.MaxInt64), "huge": 1e300, "neg": -1e19, "whole": 3.0}
	case 3:
		doc.Meta = j.Meta{"nested": map[string]any{"a": []any{1.0, "two", nil}, "z": nil}, "esc<>&\"\\ ": "v\x00", "nothing": nil}
	}
	for i := 0; i < nerr; i++ {
		e := j.NewError()
		e.ID = fmt.Sprintf("e%d", i)
		e.Status = []string{"400", "422"}[i%2]
		e.Title = "title<&>"
		if i == 1 {
			e.Detail = "detail \"q\""
			e.Code = "C1"
			e.Links["about"] = "https://e/1?a=b&c"
			e.Source["pointer"] = "/data/attributes/s"
			e.Meta["k"] = []any{1.0, nil}
		}
		doc.Errors = append(doc.Errors, e)
	}
	if nerr > 0 {
		c.DataKind = "errors"
	}
	fields := map[string][]string{}
	for _, t := range c.Schema.Types {
		switch sel {
		case 0:
			// every field, in an order that is neither sorted nor reversed (odd positions, then the even ones
			// backwards), the way a hand-written URL lists them
			fs := FieldNames(t)
			var sc []string
			for i := 1; i < len(fs); i += 2 {
				sc = append(sc, fs[i])
			}
			for i := (len(fs) - 1) &^ 1; i >= 0; i -= 2 {
				sc = append(sc, fs[i])
			}
			fields[t.Name] = sc
		case 1:
			fs := FieldNames(t)
			fields[t.Name] = fs[len(fs)-1:]
		case 2:
			fields[t.Name] = []string{}
		}
	}
	c.Fields = fields
	if rd == 0 {
		doc.RelData = AllRelData(c.Schema)
	} else {
		doc.RelData = map[string][]string{}
	}
	c.Doc = doc
	c.URL = &j.URL{Fragments: frag, ResType: frag[0], IsCol: len(frag) == 1,
		Params: &j.Params{Fields: fields, RelData: map[string][]string{}, SortingRules: []string{}, Include: [][]j.Rel{}}}
	c.Desc = fmt.Sprintf("data=%s included=%d meta=%d errors=%d prefix=%q selection=%d reldata=%d", kind, inc, meta, nerr, prefix, sel, rd)
	x.Render(c.Desc)
	return c
}

// ---- independent JSON:API structure validator --------------------------------

func selfLinkOf(prefix, typ, id string) string {
	l := prefix
	if !strings.HasSuffix(prefix, "/") {
		l += "/"
	}
	return l + typ + "/" + id
}

// ValidateDoc checks the structural rules of C03 on marshaled bytes. It
// returns (rule, message) of the first broken rule, and the (type,id) pairs of
// all resource objects found.
func ValidateDoc(out []byte, prefix string, identData bool) (rule, msg string, objs [][2]string) {
	if !json.Valid(out) {
		return "invalid-json", "output is not valid JSON", nil
	}
	var top map[string]any
	if err := json.Unmarshal(out, &top); err != nil {
		return "top-not-object", "top level is not an object: " + err.Error(), nil
	}
	if _, ok := top["jsonapi"].(map[string]any); !ok {
		return "jsonapi-member", "no jsonapi member", nil
	}
	links, _ := top["links"].(map[string]any)
	if _, ok := links["self"].(string); !ok {
		if m, ok := links["self"].(map[string]any); !ok || m["href"] == nil {
			return "self-link", "no top-level self link", nil
		}
	}
	_, hasData := top["data"]
	_, hasErrors := top["errors"]
	_, hasIncl := top["included"]
	if hasData && hasErrors {
		return "data-and-errors", "both data and errors are present", nil
	}
	if hasIncl && !hasData {
		return "included-without-data", "included is present without data", nil
	}
	checkIdent := func(v any, where string) (string, string) {
		m, ok := v.(map[string]any)
		if !ok {
			return "identifier-shape", where + ": identifier is not an object"
		}
		_, tok := m["type"].(string)
		_, iok := m["id"].(string)
		if !tok || !iok {
			return "identifier-shape", where + ": identifier lacks a string type or id"
		}
		for k := range m {
			if k != "type" && k != "id" && k != "meta" {
				return "identifier-shape", where + ": identifier has member " + k
			}
		}
		return "", ""
	}
	checkRes := func(v any, where string) (string, string) {
		m, ok := v.(map[string]any)
		if !ok {
			return "resource-shape", where + ": not an object"
		}
		typ, tok := m["type"].(string)
		id, iok := m["id"].(string)
		if !tok || !iok {
			return "resource-type-id", where + ": type or id is not a string"
		}
		if identData && strings.HasPrefix(where, "data") {
			// primary data of an Identifier / Identifiers document
			return checkIdent(v, where)
		}
		objs = append(objs, [2]string{typ, id})
		l, _ := m["links"].(map[string]any)
		self, _ := l["self"].(string)
		base := selfLinkOf(prefix, typ, id)
		if id == "" && !strings.HasPrefix(self, base) {
			// a resource without an ID yet: the library links it to the bare prefix; the
			// statement's "prefix, type and id" is not demanded of it (weaker reading)
			base = strings.TrimSuffix(base, typ+"/")
		}
		if want := base; self != want {
			return "resource-self-link", fmt.Sprintf("%s: self link %q, expected %q", where, self, want)
		}
		if a, ok := m["attributes"]; ok {
			if _, ok := a.(map[string]any); !ok {
				return "attributes-shape", where + ": attributes is not an object"
			}
		}
		if r, ok := m["relationships"]; ok {
			rm, ok := r.(map[string]any)
			if !ok {
				return "relationships-shape", where + ": relationships is not an object"
			}
			for _, name := range SortedKeys(rm) {
				ro, ok := rm[name].(map[string]any)
				if !ok {
					return "relationship-shape", where + ": relationship " + name + " is not an object"
				}
				rl, _ := ro["links"].(map[string]any)
				s, _ := rl["self"].(string)
				rel, _ := rl["related"].(string)
				if s != base+"/relationships/"+name || rel != base+"/"+name {
					return "relationship-links", fmt.Sprintf("%s: relationship %q links self=%q related=%q", where, name, s, rel)
				}
				if d, has := ro["data"]; has {
					switch d := d.(type) {
					case nil:
					case map[string]any:
						if r, m := checkIdent(d, where+"."+name); r != "" {
							return "relationship-data", m
						}
					case []any:
						for _, e := range d {
							if r, m := checkIdent(e, where+"."+name); r != "" {
								return "relationship-data", m
							}
						}
					default:
						return "relationship-data", fmt.Sprintf("%s: relationship %q data is %T", where, name, d)
					}
				}
			}
		}
		return "", ""
	}
	walk := func(v any, where string) (string, string) {
		switch v := v.(type) {
		case nil:
			return "", ""
		case []any:
			for i, e := range v {
				if r, m := checkRes(e, fmt.Sprintf("%s[%d]", where, i)); r != "" {
					return r, m
				}
			}
			return "", ""
		default:
			return checkRes(v, where)
		}
	}
	if hasData {
		if r, m := walk(top["data"], "data"); r != "" {
			return r, m, objs
		}
	}
	if hasIncl {
		l, ok := top["included"].([]any)
		if !ok {
			return "included-shape", "included is not an array", objs
		}
		if r, m := walk(l, "included"); r != "" {
			return r, m, objs
		}
	}
	if hasErrors {
		l, ok := top["errors"].([]any)
		if !ok {
			return "errors-shape", "errors is not an array", objs
		}
		for _, e := range l {
			if _, ok := e.(map[string]any); !ok {
				return "errors-shape", "an error is not an object", objs
			}
		}
	}
	return "", "", objs
}

func dupPairs(objs [][2]string) []string {
	seen := map[[2]string]int{}
	for _, o := range objs {
		seen[o]++
	}
	var out []string
	for o, n := range seen {
		if n > 1 {
			out = append(out, fmt.Sprintf("%s/%s x%d", o[0], o[1], n))
		}
	}
	sort.Strings(out)
	return out
}
