package props

import (
	"fmt"
	"sort"
	"strings"

	j "github.com/mfcochauxlaberge/jsonapi"

	"verif/mc"
)

// C14 — schema editing keeps the schema well-formed and is all-or-nothing.

type c14Op struct {
	kind string // AddType RemoveType AddAttr RemoveAttr AddRel RemoveRel AddTwoWayRel
	typ  string
	attr j.Attr
	rel  j.Rel
	name string
}

func (o c14Op) String() string {
	switch o.kind {
	case "Lookups":
		return "HasType/GetType(a,b,c,zz,\"\")"
	case "AddType", "RemoveType":
		return fmt.Sprintf("%s(%q)", o.kind, o.typ)
	case "AddAttr":
		return fmt.Sprintf("AddAttr(%q, {%q type=%d})", o.typ, o.attr.Name, o.attr.Type)
	case "RemoveAttr", "RemoveRel":
		return fmt.Sprintf("%s(%q, %q)", o.kind, o.typ, o.name)
	case "AddRel":
		return fmt.Sprintf("AddRel(%q, %s)", o.typ, showRel(o.rel))
	}
	return fmt.Sprintf("AddTwoWayRel(%s)", showRel(o.rel))
}

func c14Ops() []c14Op {
	var ops []c14Op
	// " " and "a " are names like any other: non-empty and different from "a"
	for _, t := range []string{"a", "b", "c", "", "ab", " ", "a "} {
		ops = append(ops, c14Op{kind: "AddType", typ: t})
	}
	ops = append(ops, c14Op{kind: "AddRel", typ: "a", rel: j.Rel{FromType: "a", FromName: "bc", ToType: "ab", ToName: "c"}})
	for _, t := range []string{"a", "b", "c", "zz"} {
		ops = append(ops, c14Op{kind: "RemoveType", typ: t})
	}
	for _, t := range []string{"a", "b", "zz"} {
		ops = append(ops,
			c14Op{kind: "AddAttr", typ: t, attr: j.Attr{Name: "x", Type: j.AttrTypeString}},
			c14Op{kind: "AddAttr", typ: t, attr: j.Attr{Name: "", Type: j.AttrTypeString}},
			c14Op{kind: "AddAttr", typ: t, attr: j.Attr{Name: "x", Type: j.AttrTypeInvalid}},
			// a valid definition under a name that may be taken, differing from the first in kind and nullability:
			// a refused duplicate must leave the stored definition as it was
			c14Op{kind: "AddAttr", typ: t, attr: j.Attr{Name: "x", Type: j.AttrTypeInt64, Nullable: true}},
			c14Op{kind: "AddAttr", typ: t, attr: j.Attr{Name: "y", Type: 99, Nullable: true}},
			c14Op{kind: "AddAttr", typ: t, attr: j.Attr{Name: "y", Type: -1}},
			c14Op{kind: "RemoveAttr", typ: t, name: "x"},
			c14Op{kind: "RemoveAttr", typ: t, name: "q"},
			c14Op{kind: "AddRel", typ: t, rel: j.Rel{FromType: t, FromName: "r", ToOne: true, ToType: "a"}},
			c14Op{kind: "AddRel", typ: t, rel: j.Rel{FromType: t, FromName: "r", ToType: "b"}},
			c14Op{kind: "AddRel", typ: t, rel: j.Rel{FromType: t, FromName: "s", ToType: "b"}},
			c14Op{kind: "AddRel", typ: t, rel: j.Rel{FromType: t, FromName: "", ToType: "a"}},
			c14Op{kind: "AddRel", typ: t, rel: j.Rel{FromType: t, FromName: "r", ToType: ""}},
			c14Op{kind: "RemoveRel", typ: t, name: "r"},
			c14Op{kind: "RemoveRel", typ: t, name: "s"},
			// removing an attribute by the name of a relationship (and vice versa) removes nothing
			c14Op{kind: "RemoveAttr", typ: t, name: "r"},
			c14Op{kind: "RemoveRel", typ: t, name: "x"},
		)
	}
	ops = append(ops,
		// a relationship given "from the other side": FromType names another type, ToType this one
		c14Op{kind: "AddRel", typ: "a", rel: j.Rel{FromType: "b", FromName: "w", ToType: "a"}},
		c14Op{kind: "AddRel", typ: "a", rel: j.Rel{FromType: "b", FromName: "w2", ToType: "a", ToName: "r"}},
		// a one-sided declaration that names b.s as its inverse; a.r <-> b.s can still be added later
		c14Op{kind: "AddRel", typ: "a", rel: j.Rel{FromType: "a", FromName: "d", ToType: "b", ToName: "s"}},
	)
	ops = append(ops, c14Op{kind: "Lookups"})
	two := func(ft, fn, tt, tn string) c14Op {
		return c14Op{kind: "AddTwoWayRel", rel: j.Rel{FromType: ft, FromName: fn, ToOne: true, ToType: tt, ToName: tn, FromOne: false}}
	}
	ops = append(ops,
		two("a", "r", "b", "s"), // normalised direction
		two("b", "s", "a", "r"), // same pair, given from the other side
		two("a", "r", "a", "s"), // within one type
		two("a", "s", "a", "r"), // within one type, other direction
		two("a", "r", "c", "s"), // c may be missing
		two("c", "r", "a", "s"),
		two("b", "r", "a", "s"), // non-normalised, other names
		// names whose concatenations coincide: type "a"+"bc" and type "ab"+"c"
		two("a", "bc", "ab", "c"),
		two("ab", "c", "a", "bc"),
		// one half has no name: refused, and nothing of the other half stays behind
		two("a", "r", "b", ""),
		two("b", "", "a", "r"),
		two("a", "", "a", "s"),
	)
	return ops
}

// ---- reference model: a plain list of types ---------------------------------

type c14Type struct {
	name  string
	attrs map[string]j.Attr
	rels  map[string]j.Rel
}

type c14Model struct{ types []*c14Type }

func (m *c14Model) find(n string) *c14Type {
	for _, t := range m.types {
		if t.name == n {
			return t
		}
	}
	return nil
}

func validKind(a j.Attr) bool { return a.Type >= j.AttrTypeString && a.Type <= j.AttrTypeBytes }

// apply returns whether the edit must report an error (and then changes nothing).
func (m *c14Model) apply(o c14Op) (wantErr bool, hasErr bool) {
	switch o.kind {
	case "Lookups":
		return false, false
	case "AddType":
		if o.typ == "" || m.find(o.typ) != nil {
			return true, true
		}
		m.types = append(m.types, &c14Type{name: o.typ, attrs: map[string]j.Attr{}, rels: map[string]j.Rel{}})
		return false, true
	case "RemoveType":
		for i, t := range m.types {
			if t.name == o.typ {
				m.types = append(m.types[:i:i], m.types[i+1:]...)
				break
			}
		}
		return false, false
	case "AddAttr":
		t := m.find(o.typ)
		if t == nil || o.attr.Name == "" || !validKind(o.attr) {
			return true, true
		}
		if _, dup := t.attrs[o.attr.Name]; dup {
			return true, true
		}
		t.attrs[o.attr.Name] = o.attr
		return false, true
	case "RemoveAttr":
		if t := m.find(o.typ); t != nil {
			delete(t.attrs, o.name)
		}
		return false, false
	case "AddRel":
		t := m.find(o.typ)
		if t == nil || o.rel.FromName == "" || o.rel.ToType == "" {
			return true, true
		}
		if _, dup := t.rels[o.rel.FromName]; dup {
			return true, true
		}
		t.rels[o.rel.FromName] = o.rel
		return false, true
	case "RemoveRel":
		if t := m.find(o.typ); t != nil {
			delete(t.rels, o.name)
		}
		return false, false
	case "AddTwoWayRel":
		r := o.rel
		inv := r.Invert()
		from, to := m.find(r.FromType), m.find(r.ToType)
		if from == nil || to == nil || r.FromName == "" || r.ToName == "" {
			return true, true
		}
		if _, dup := from.rels[r.FromName]; dup {
			return true, true
		}
		if _, dup := to.rels[r.ToName]; dup {
			return true, true
		}
		from.rels[r.FromName] = r
		to.rels[inv.FromName] = inv
		return false, true
	}
	panic("unknown op")
}

func renderTypes(names []string, attrs []map[string]j.Attr, rels []map[string]j.Rel) string {
	var b strings.Builder
	for i, n := range names {
		fmt.Fprintf(&b, "%q{", n)
		for _, k := range SortedKeys(attrs[i]) {
			a := attrs[i][k]
			fmt.Fprintf(&b, "attr %q=%q/%d/%v;", k, a.Name, a.Type, a.Nullable)
		}
		for _, k := range SortedKeys(rels[i]) {
			fmt.Fprintf(&b, "rel %q=%s;", k, showRel(rels[i][k]))
		}
		b.WriteString("} ")
	}
	return b.String()
}

func (m *c14Model) render() string {
	var names []string
	var as []map[string]j.Attr
	var rs []map[string]j.Rel
	for _, t := range m.types {
		names = append(names, t.name)
		as = append(as, t.attrs)
		rs = append(rs, t.rels)
	}
	return renderTypes(names, as, rs)
}

func renderSchema(s *j.Schema) string {
	var names []string
	var as []map[string]j.Attr
	var rs []map[string]j.Rel
	for _, t := range s.Types {
		names = append(names, t.Name)
		as = append(as, t.Attrs)
		rs = append(rs, t.Rels)
	}
	return renderTypes(names, as, rs)
}

// invariant checks the well-formedness rules of the statement directly.
func c14Invariant(s *j.Schema) string {
	seen := map[string]bool{}
	for _, t := range s.Types {
		if t.Name == "" {
			return "a type has an empty name"
		}
		if seen[t.Name] {
			return fmt.Sprintf("type name %q is not unique", t.Name)
		}
		seen[t.Name] = true
		for k, a := range t.Attrs {
			if k == "" || a.Name != k {
				return fmt.Sprintf("type %q: attribute key %q holds name %q", t.Name, k, a.Name)
			}
			if !validKind(a) {
				return fmt.Sprintf("type %q: attribute %q has invalid kind %d", t.Name, k, a.Type)
			}
		}
		for k, r := range t.Rels {
			if k == "" || r.FromName != k {
				return fmt.Sprintf("type %q: relationship key %q holds name %q", t.Name, k, r.FromName)
			}
			if r.ToType == "" {
				return fmt.Sprintf("type %q: relationship %q has an empty target type", t.Name, k)
			}
		}
	}
	return ""
}

// c14Lookups checks that the lookups agree with the list of types. It is an
// OPERATION of the alphabet (not run after every step), so histories with and
// without intermediate lookups are both explored: a memoised lookup that is
// refreshed whenever it is consulted would otherwise never be seen stale.
func c14Lookups(s *j.Schema) string {
	byName := map[string]j.Type{}
	for _, t := range s.Types {
		byName[t.Name] = t
	}
	for _, n := range []string{"a", "b", "c", "zz", ""} {
		want, present := byName[n]
		if s.HasType(n) != present {
			return fmt.Sprintf("HasType(%q) = %v but the list of types says %v", n, s.HasType(n), present)
		}
		g := s.GetType(n)
		if !present {
			if g.Name != "" {
				return fmt.Sprintf("GetType(%q).Name = %q for a type that is not in the list", n, g.Name)
			}
			continue
		}
		if renderType(g) != renderType(want) {
			return fmt.Sprintf("GetType(%q) = [%s] but the list of types holds [%s]", n, renderType(g), renderType(want))
		}
	}
	return ""
}

type c14Sys struct {
	s   *j.Schema
	m   *c14Model
	ops []c14Op
}

func (y *c14Sys) Key() string { return mc.Snap(y.s) }

func (y *c14Sys) Apply(opi int) (fails []mc.Violation, fatal bool) {
	o := y.ops[opi]
	fail := func(what, f string, a ...any) {
		fails = append(fails, mc.Violation{Sig: "C14:" + o.kind + ":" + what, Msg: fmt.Sprintf("%s: ", o) + fmt.Sprintf(f, a...)})
	}
	before := mc.Snap(y.s)
	beforeR := renderSchema(y.s)
	var err error
	lookupComplaint := ""
	p := Try(func() {
		switch o.kind {
		case "Lookups":
			lookupComplaint = c14Lookups(y.s)
		case "AddType":
			err = y.s.AddType(j.Type{Name: o.typ})
		case "RemoveType":
			y.s.RemoveType(o.typ)
		case "AddAttr":
			err = y.s.AddAttr(o.typ, o.attr)
		case "RemoveAttr":
			y.s.RemoveAttr(o.typ, o.name)
		case "AddRel":
			err = y.s.AddRel(o.typ, o.rel)
		case "RemoveRel":
			y.s.RemoveRel(o.typ, o.name)
		case "AddTwoWayRel":
			err = y.s.AddTwoWayRel(o.rel)
		}
	})
	if p != "" {
		fail("panic", "panicked on schema [%s]: %s", beforeR, p)
		return fails, true
	}
	wantErr, hasErr := y.m.apply(o)
	if hasErr && (err != nil) != wantErr {
		fail("error-mismatch", "on schema [%s] returned error=%v, the model says error=%v", beforeR, err, wantErr)
	}
	if err != nil && mc.Snap(y.s) != before {
		fail("error-changed-schema", "returned an error (%v) but changed the schema from [%s] to [%s]", err, beforeR, renderSchema(y.s))
	}
	if got, want := renderSchema(y.s), y.m.render(); got != want {
		fail("state-mismatch", "on schema [%s]: schema is now [%s], the model says [%s]", beforeR, got, want)
	}
	if inv := c14Invariant(y.s); inv != "" {
		fail("invariant", "on schema [%s]: %s", beforeR, inv)
	}
	if lookupComplaint != "" {
		fail("disagree", "on schema [%s]: %s", beforeR, lookupComplaint)
	}
	if o.kind == "Lookups" && mc.Snap(y.s) != before {
		// a lookup may fill a private cache; that is C12's business, but it must
		// not change what the schema holds
		if renderSchema(y.s) != beforeR {
			fail("changed-schema", "a lookup changed the schema from [%s] to [%s]", beforeR, renderSchema(y.s))
		}
	}
	return fails, false
}

func c14BFS(c *Ctx) *mc.BFS {
	ops := c14Ops()
	depth := 6
	if Thorough() {
		depth = 8
	}
	return &mc.BFS{
		Name: "C14/edits", NOps: len(ops), MaxDepth: depth, Workers: c.Workers, R: c.R,
		OpName: func(i int) string { return ops[i].String() },
		New:    func() mc.System { return &c14Sys{s: &j.Schema{}, m: &c14Model{}, ops: ops} },
	}
}

func init() {
	names := []string{}
	for _, o := range c14Ops() {
		names = append(names, o.String())
	}
	sort.Strings(names)
	Register(&Prop{
		ID: "C14",
		Rule: fmt.Sprintf("Engine B: breadth-first search over ALL histories (depth <= 6 quick / 8 thorough) of %d schema-edit operations (AddType/RemoveType over {a,b,c,\"\",ab,\" \",\"a \",unknown}; AddAttr with valid, empty-named, invalid-kind attributes and a second valid definition (other kind, nullable) under the same name; RemoveAttr (incl. by the name of a relationship); AddRel with valid, duplicate, empty-named, empty-target relationships, relationships given from the other side (FromType another type) and one-sided declarations naming an inverse; RemoveRel (incl. by the name of an attribute); AddTwoWayRel in normalised and non-normalised direction, within one type, with a missing type, taken names and an empty name on one side) on a real Schema, de-duplicated by a deep heap snapshot (type ORDER is part of the state, so first/middle/last removals are distinct). Oracle on every transition: no panic, error iff the list-of-types model says so, error => snapshot unchanged, Schema.Types == model, well-formedness invariant, HasType/GetType agree with the list. A state is non-trivial when it holds at least one type", len(c14Ops())),
		Assumptions: []string{"a relationship that is its own inverse is outside the domain (as stated)"},
		Harnesses: []Harness{{
			Name: "C14/edits",
			Custom: func(c *Ctx) {
				b := c14BFS(c)
				if !b.Explore() {
					c.R.Cap("C14/edits incomplete")
				}
				c.R.Sets["nontrivial"] = c.R.Sets["states"]
			},
			ReplayCustom: func(c *Ctx, choices []int) []mc.Violation {
				v, _ := c14BFS(c).ReplayHistory(choices)
				return v
			},
		}},
	})
}
