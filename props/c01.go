package props

import (
	"fmt"

	j "github.com/mfcochauxlaberge/jsonapi"

	"verif/mc"
)

// C01 — resource values survive a marshal/unmarshal round trip.

var c01IDs = []string{"a", "\x1b\x7f\U000E0001", "x\\u003cy\\u0026", "a b", "<&>\"\\", "x\x00y", "é", "日本", longStr, "1", "a/b?c=d&e#f%20", " "}

// roundTrip marshals res (all fields, all relationship data) and unmarshals it
// against schema through the resource path (doc=false) or the document path.
func roundTrip(x *mc.Exec, schema *j.Schema, res j.Resource, doc bool) (got j.Resource, stage, msg string, payload []byte) {
	typ := res.GetType()
	var out []byte
	if p := Try(func() {
		if doc {
			id, _ := res.Get("id").(string)
			d := &j.Document{Data: res, RelData: AllRelData(schema)}
			var err error
			out, err = j.MarshalDocument(d, AllFieldsURL(schema, typ.Name, id))
			if err != nil {
				panic("MarshalDocument error: " + err.Error())
			}
		} else {
			// the selection in an order that is neither sorted nor reversed (declaration order,
			// URL order: the order of the names is irrelevant)
			sel := FieldNames(typ)
			for i := 0; i+2 < len(sel); i += 3 {
				sel[i], sel[i+2] = sel[i+2], sel[i]
			}
			out = j.MarshalResource(res, "", sel, AllRelData(schema))
		}
	}); p != "" {
		return nil, "marshal-panic", p, nil
	}
	x.R.Add("transitions", 1)
	var err error
	if p := Try(func() {
		if doc {
			var d *j.Document
			d, err = j.UnmarshalDocument(out, schema)
			if err == nil {
				r, ok := d.Data.(j.Resource)
				if !ok {
					panic(fmt.Sprintf("document data came back as %T", d.Data))
				}
				got = r
			}
		} else if c01ExploreMemberOrder {
			// which member of the payload is visited first is the runtime's choice
			WithMapDevIn(x, map[string]bool{"UnmarshalResource": true}, func() { got, err = j.UnmarshalResource(out, schema) })
		} else {
			got, err = j.UnmarshalResource(out, schema)
		}
	}); p != "" {
		return nil, "unmarshal-panic", p, out
	}
	x.R.Add("transitions", 1)
	if err != nil {
		return nil, "unmarshal-error", err.Error(), out
	}
	return got, "", "", out
}

// c01ExploreMemberOrder is set by the harnesses that put the member-visiting
// order of UnmarshalResource under explorer control (deviation bound 1).
var c01ExploreMemberOrder = false

func implName(soft bool) string {
	if soft {
		return "soft"
	}
	return "wrap"
}

func c01Check(x *mc.Exec, tag string, schema *j.Schema, res j.Resource, soft bool, kind string) {
	for _, doc := range []bool{false, true} {
		path := "res"
		if doc {
			path = "doc"
		}
		got, stage, msg, payload := roundTrip(x, schema, res, doc)
		x.Observe(string(payload), stage)
		if stage != "" {
			x.Fail(fmt.Sprintf("C01:%s:%s:%s:%s:%s", tag, path, implName(soft), kind, stage),
				"%s path, %s resource: %s: %s (payload %.300s)", path, implName(soft), stage, msg, payload)
			continue
		}
		if d := CompareRes(res, got, nil); d != nil {
			k := kind
			if d.Kind != "" {
				k = d.Kind
			}
			x.Fail(fmt.Sprintf("C01:%s:%s:%s:%s:%s", tag, path, implName(soft), k, d.What),
				"%s path, %s resource: %s (payload %.300s)", path, implName(soft), d.Msg, payload)
		}
	}
}

// one attribute of every kind, every boundary value, both implementations
func c01Single(x *mc.Exec) {
	kinds := AllKinds()
	k := kinds[x.Choose(len(kinds), "kind")]
	soft := x.Choose(2, "impl") == 0
	vals := Values(k, 0)
	vi := x.Choose(len(vals), "value")
	v := vals[vi]
	d := TypeD{Name: "t", Attrs: []AttrD{{"a", k}}}
	schema := BuildSchema([]TypeD{d}, []bool{soft})
	res := schema.Types[0].New()
	res.Set("id", "id1")
	res.Set("a", CloneVal(v))
	x.Render(fmt.Sprintf("%s %s a=%s", implName(soft), k, ShowVal(v)))
	x.R.Mark("nontrivial", mc.Hash(k.String(), soft, vi))
	x.R.Sample("single", fmt.Sprintf("%s %s a=%s", implName(soft), k, ShowVal(v)))
	c01Check(x, "single", schema, res, soft, k.String())
}

// c01PairValues: how many values per kind enter the 2-way combinations
// (quick: 5, thorough: the whole boundary alphabet).
func c01PairValues() int {
	if Thorough() {
		return 0
	}
	return 5
}

func wideTypeD(name, other string) TypeD {
	d := TypeD{Name: name}
	for i, k := range AllKinds() {
		d.Attrs = append(d.Attrs, AttrD{fmt.Sprintf("a%02d", i), k})
	}
	d.Rels = []RelD{{"one", true, other, ""}, {"many", false, other, ""}}
	return d
}

// a type holding all 28 kinds at once: diagonals and all 2-way combinations
func c01Wide(x *mc.Exec) {
	kinds := AllKinds()
	mode := x.Choose(1+len(kinds), "first") // 0 = diagonal, i>0 = pair with first kind i-1
	soft := x.Choose(2, "impl") == 0
	softU := x.Choose(2, "impl-other") == 0
	d, u := wideTypeD("t", "u"), wideTypeD("u", "t")
	schema := BuildSchema([]TypeD{d, u}, []bool{soft, softU})
	res := schema.Types[0].New()
	res.Set("id", "id1")
	desc := ""
	if mode == 0 {
		i := x.Choose(10, "diag")
		for n, k := range kinds {
			vals := Values(k, 0)
			res.Set(fmt.Sprintf("a%02d", n), CloneVal(vals[i%len(vals)]))
		}
		res.Set("one", []string{"", "x", "y z"}[i%3])
		res.Set("many", [][]string{{}, {"b", "a"}, {"c", "a", "b"}}[i%3])
		desc = fmt.Sprintf("diagonal %d", i)
	} else {
		a := mode - 1
		b := a + 1 + x.Choose(len(kinds)-a, "second")
		if b >= len(kinds) {
			// pair (a, relationship)
			va := Values(kinds[a], c01PairValues())
			i := x.Choose(len(va), "va")
			res.Set(fmt.Sprintf("a%02d", a), CloneVal(va[i]))
			res.Set("one", "o1")
			res.Set("many", []string{"m2", "m1"})
			desc = fmt.Sprintf("pair a%02d=%s with relationships", a, ShowVal(va[i]))
		} else {
			va, vb := Values(kinds[a], c01PairValues()), Values(kinds[b], c01PairValues())
			i, jx := x.Choose(len(va), "va"), x.Choose(len(vb), "vb")
			res.Set(fmt.Sprintf("a%02d", a), CloneVal(va[i]))
			res.Set(fmt.Sprintf("a%02d", b), CloneVal(vb[jx]))
			desc = fmt.Sprintf("pair a%02d=%s a%02d=%s", a, ShowVal(va[i]), b, ShowVal(vb[jx]))
		}
	}
	x.Render(implName(soft) + " wide: " + desc)
	x.R.Mark("nontrivial", mc.Hash(x.Choices()))
	x.R.Sample("wide", implName(soft)+" wide: "+desc)
	c01Check(x, "wide", schema, res, soft, "wide")
}

// IDs and relationship values, across the four soft/struct schema mixes
func c01Rel(x *mc.Exec) {
	// (every id of the alphabet goes through C01/single; here four of them meet every linkage)
	relIDs := c01IDs
	if !Thorough() {
		relIDs = []string{c01IDs[0], c01IDs[len(c01IDs)/3], c01IDs[2*len(c01IDs)/3], c01IDs[len(c01IDs)-1]}
	}
	id := relIDs[x.Choose(len(relIDs), "id")]
	soft := x.Choose(2, "impl") == 0
	softU := x.Choose(2, "impl-other") == 0
	ones := []string{"", "o", "a b", "<&>", "日本", "\x01\x7f\U000E0001"}
	one := ones[x.Choose(len(ones), "to-one")]
	// includes ids that JSON must escape (control characters, DEL, a
	// non-printable supplementary-plane rune, quote and backslash)
	pool := []string{"a", "b", "c\x01\x7f", "\a\v\x00\U000E0001\"\\é\\u003e", ""}
	maxLen := 3
	if Thorough() {
		maxLen = 4
	}
	n := x.Choose(maxLen, "to-many len")
	many := []string{}
	for i := 0; i < n; i++ {
		many = append(many, pool[x.Choose(len(pool), "to-many id")])
	}
	twos := []string{"", "t2"}
	two := twos[x.Choose(len(twos), "second to-one")]
	// "S" / "One": fields whose names differ from others by letter case only, holding other values
	d := TypeD{Name: "t", Attrs: []AttrD{{"s", Kind{j.AttrTypeString, false}}, {"S", Kind{j.AttrTypeString, false}}},
		Rels: []RelD{{"one", true, "u", "back"}, {"many", false, "u", ""}, {"two", true, "u", ""}, {"One", true, "u", ""}}}
	u := TypeD{Name: "u", Rels: []RelD{{"back", false, "t", "one"}}}
	schema := BuildSchema([]TypeD{d, u}, []bool{soft, softU})
	fromType := "t"
	if soft {
		// a hand-declared one-way relationship may leave FromType empty, or stale after its type was
		// renamed: relationship data is asked for under the resource's type name all the same
		// (not a dimension of its own: it follows the other choices so that the three values meet
		// every to-one value and every to-many length)
		oi := 0
		for i, o := range ones {
			if o == one {
				oi = i
			}
		}
		fromType = []string{"t", "", "formername"}[(oi+len(many))%3]
		for _, n := range []string{"many", "two", "One"} {
			r := schema.Types[0].Rels[n]
			r.FromType = fromType
			schema.Types[0].Rels[n] = r
		}
	}
	res := schema.Types[0].New()
	res.Set("id", id)
	res.Set("one", one)
	res.Set("many", append([]string{}, many...))
	res.Set("two", two)
	res.Set("s", "lower")
	res.Set("S", "UPPER")
	res.Set("One", "upper-"+one)
	desc := fmt.Sprintf("%s id=%q one=%q two=%q many=%v other=%s one-way FromType=%q", implName(soft), id, one, two, many, implName(softU), fromType)
	x.Render(desc)
	x.R.Mark("nontrivial", mc.Hash(desc))
	x.R.Sample("rel", desc)
	c01ExploreMemberOrder = true
	defer func() { c01ExploreMemberOrder = false }()
	c01Check(x, "rel", schema, res, soft, "rel")
}

// c01APIBuilt: the schema is built step by step through the Schema API (types
// added without maps, attributes and a two-way relationship added afterwards)
// with lookups interleaved at every subset of positions, then a resource using
// every field is round-tripped.
func c01APIBuilt(x *mc.Exec) {
	type step struct {
		name string
		do   func(s *j.Schema) error
		need []int
	}
	steps := []step{
		{"AddType(t)", func(s *j.Schema) error { return s.AddType(j.Type{Name: "t"}) }, nil},
		{"AddType(u)", func(s *j.Schema) error { return s.AddType(j.Type{Name: "u"}) }, nil},
		{"AddAttr(t.s)", func(s *j.Schema) error { return s.AddAttr("t", j.Attr{Name: "s", Type: j.AttrTypeString}) }, []int{0}},
		{"AddTwoWayRel(t.one<->u.back)", func(s *j.Schema) error {
			return s.AddTwoWayRel(j.Rel{FromType: "t", FromName: "one", ToOne: true, ToType: "u", ToName: "back"})
		}, []int{0, 1}},
		{"AddRel(t.many->u)", func(s *j.Schema) error {
			return s.AddRel("t", j.Rel{FromType: "t", FromName: "many", ToType: "u"})
		}, []int{0}},
	}
	done := map[int]bool{}
	s := &j.Schema{}
	desc := ""
	for len(done) < len(steps) {
		var ready []int
		for i, st := range steps {
			ok := !done[i]
			for _, n := range st.need {
				ok = ok && done[n]
			}
			if ok {
				ready = append(ready, i)
			}
		}
		i := ready[x.Choose(len(ready), "next step")]
		if err := steps[i].do(s); err != nil {
			x.Fail("C01:api-built:step-failed", "%s failed after [%s]: %v", steps[i].name, desc, err)
			return
		}
		done[i] = true
		desc += steps[i].name + "; "
		if x.Bool("lookups") {
			_ = s.HasType("t")
			_ = s.GetType("t")
			_ = s.GetType("u")
			desc += "lookups; "
		}
	}
	x.Render(desc)
	x.R.Sample("api-built", desc)
	x.R.Mark("nontrivial", mc.Hash(desc))
	typ := s.GetType("t")
	res := typ.New()
	res.Set("id", "id1")
	res.Set("s", "v")
	res.Set("one", "u1")
	res.Set("many", []string{"u2", "u1"})
	c01Check(x, "api-built", s, res, true, "api-built")
	// the other end of the two-way relationship
	tu := s.GetType("u")
	ru := tu.New()
	ru.Set("id", "u1")
	ru.Set("back", []string{"id1", "id2"})
	if len(ru.Rels()) != 1 {
		x.Fail("C01:api-built:type-u", "after [%s] a new resource of type u has relationships %v", desc, SortedKeys(ru.Rels()))
		return
	}
	c01Check(x, "api-built", s, ru, true, "api-built-u")
}

// c01EditedType: a live soft resource whose type is edited in place (a field
// renamed, so the number of fields stays the same; a field added; a field
// removed) must still round-trip: the new field holds its zero value.
func c01EditedType(x *mc.Exec) {
	kinds := []Kind{kInt, kStr, kPInt, {j.AttrTypeBytes, false}, {j.AttrTypeTime, false}, kBool}
	k := kinds[x.Choose(len(kinds), "kind of the new field")]
	edit := x.Choose(3, "edit")
	touch := x.Bool("read before the edit")
	d := TypeD{Name: "t", Attrs: []AttrD{{"count", kInt}, {"s", kStr}}, Rels: []RelD{{"one", true, "t", ""}}}
	typ := d.SoftType()
	schema := &j.Schema{}
	res := &j.SoftResource{Type: &typ}
	res.Set("id", "id1")
	res.Set("count", 5)
	res.Set("s", "v")
	if touch {
		_ = res.Get("count")
		_ = res.Attrs()
	}
	desc := ""
	switch edit {
	case 0:
		typ.RemoveAttr("count")
		_ = typ.AddAttr(j.Attr{Name: "total", Type: k.Type, Nullable: k.Nullable})
		desc = "rename count -> total (" + k.String() + ")"
	case 1:
		_ = typ.AddAttr(j.Attr{Name: "total", Type: k.Type, Nullable: k.Nullable})
		desc = "add total (" + k.String() + ")"
	case 2:
		typ.RemoveRel("one")
		_ = typ.AddRel(j.Rel{FromType: "t", FromName: "many", ToType: "t"})
		desc = "replace to-one one by to-many many"
	}
	if err := schema.AddType(typ.Copy()); err != nil {
		panic(err)
	}
	x.Render(fmt.Sprintf("%s, read before edit: %v", desc, touch))
	x.R.Mark("nontrivial", mc.Hash(desc, touch))
	x.R.Sample("edited-type", desc)
	c01Check(x, "edited-type", schema, res, true, "edited-type")
}

func init() {
	Register(&Prop{
		ID: "C01",
		Rule: "Engine A, all choices Full: (a) 28 kinds x {soft,struct-backed} x every value of the kind's boundary alphabet (min/max of each width, uint64 > 2^63, NUL/multi-byte/HTML strings, zoned sub-second times in years 1..9999, empty/short byte strings, typed nil); (b) a 28-attribute type: 10 diagonals and all 2-way (kind,value) combinations with 5 values per kind (thorough: the whole alphabet of each kind), x 4 soft/struct schema mixes; (c) 4 IDs (thorough: 10) x 6 to-one x all to-many lists over 4 ids (two needing escapes) up to length 2 (thorough 3) incl. repeats, two to-one relationships, the member-visiting order of UnmarshalResource explored (deviation bound 1) x 4 mixes. (d) a schema built step by step through AddType/AddAttr/AddRel/AddTwoWayRel in every dependency-respecting order with lookups interleaved at every subset of positions. Each case goes through MarshalResource->UnmarshalResource and MarshalDocument->UnmarshalDocument; oracle = field-by-field comparator written in the harness (never the library's Equal). Every case is distinct by construction; all are counted non-trivial (each carries a boundary value or a pair)",
		Assumptions: []string{"years 1..9999, whole-minute zone offsets, valid UTF-8, no non-nil pointer to a nil byte slice (stated domain)", "to-many compared as sets; nil byte string == empty byte string"},
		Harnesses: []Harness{
			{Name: "C01/single", Body: c01Single},
			{Name: "C01/wide", Body: c01Wide},
			{Name: "C01/rel", Body: c01Rel, Dev: func() int { return 1 }},
			{Name: "C01/api-built", Body: c01APIBuilt},
			{Name: "C01/edited-type", Body: c01EditedType},
		},
	})
}
