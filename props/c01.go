package props

import (
	"fmt"

	j "github.com/mfcochauxlaberge/jsonapi"

	"verif/mc"
)

// C01 — resource values survive a marshal/unmarshal round trip.

var c01IDs = []string{"a", "\x1b\x7f\U000E0001", "a b", "<&>\"\\", "x\x00y", "é", "日本", longStr, "1", "a/b?c=d&e#f%20", " "}

// roundTrip marshals res (all fields, all relationship data) and unmarshals it
// against schema through the resource path (doc=false) or the document path.
func roundTrip(x *mc.Exec, schema *j.Schema, res j.Resource, doc bool) (got j.Resource, stage, msg string, payload []byte) {
	typ := res.GetType()
	var out []byte
	if p := Try(func() {
		if doc {
			id, _ := res.Get("id").(string)
			d := &j.Document{Data: res, RelData: AllRelData(schema)}
			var err error
			out, err = j.MarshalDocument(d, AllFieldsURL(schema, typ.Name, id))
			if err != nil {
				panic("MarshalDocument error: " + err.Error())
			}
		} else {
			out = j.MarshalResource(res, "", FieldNames(typ), AllRelData(schema))
		}
	}); p != "" {
		return nil, "marshal-panic", p, nil
	}
	x.R.Add("transitions", 1)
	var err error
	if p := Try(func() {
		if doc {
			var d *j.Document
			d, err = j.UnmarshalDocument(out, schema)
			if err == nil {
				r, ok := d.Data.(j.Resource)
				if !ok {
					panic(fmt.Sprintf("document data came back as %T", d.Data))
				}
				got = r
			}
		} else {
			got, err = j.UnmarshalResource(out, schema)
		}
	}); p != "" {
		return nil, "unmarshal-panic", p, out
	}
	x.R.Add("transitions", 1)
	if err != nil {
		return nil, "unmarshal-error", err.Error(), out
	}
	return got, "", "", out
}

func implName(soft bool) string {
	if soft {
		return "soft"
	}
	return "wrap"
}

func c01Check(x *mc.Exec, tag string, schema *j.Schema, res j.Resource, soft bool, kind string) {
	for _, doc := range []bool{false, true} {
		path := "res"
		if doc {
			path = "doc"
		}
		got, stage, msg, payload := roundTrip(x, schema, res, doc)
		x.Observe(string(payload), stage)
		if stage != "" {
			x.Fail(fmt.Sprintf("C01:%s:%s:%s:%s:%s", tag, path, implName(soft), kind, stage),
				"%s path, %s resource: %s: %s (payload %.300s)", path, implName(soft), stage, msg, payload)
			continue
		}
		if d := CompareRes(res, got, nil); d != nil {
			k := kind
			if d.Kind != "" {
				k = d.Kind
			}
			x.Fail(fmt.Sprintf("C01:%s:%s:%s:%s:%s", tag, path, implName(soft), k, d.What),
				"%s path, %s resource: %s (payload %.300s)", path, implName(soft), d.Msg, payload)
		}
	}
}

// one attribute of every kind, every boundary value, both implementations
func c01Single(x *mc.Exec) {
	kinds := AllKinds()
	k := kinds[x.Choose(len(kinds), "kind")]
	soft := x.Choose(2, "impl") == 0
	vals := Values(k, 0)
	vi := x.Choose(len(vals), "value")
	v := vals[vi]
	d := TypeD{Name: "t", Attrs: []AttrD{{"a", k}}}
	schema := BuildSchema([]TypeD{d}, []bool{soft})
	res := schema.Types[0].New()
	res.Set("id", "id1")
	res.Set("a", CloneVal(v))
	x.Render(fmt.Sprintf("%s %s a=%s", implName(soft), k, ShowVal(v)))
	x.R.Mark("nontrivial", mc.Hash(k.String(), soft, vi))
	x.R.Sample("single", fmt.Sprintf("%s %s a=%s", implName(soft), k, ShowVal(v)))
	c01Check(x, "single", schema, res, soft, k.String())
}

func wideTypeD(name, other string) TypeD {
	d := TypeD{Name: name}
	for i, k := range AllKinds() {
		d.Attrs = append(d.Attrs, AttrD{fmt.Sprintf("a%02d", i), k})
	}
	d.Rels = []RelD{{"one", true, other, ""}, {"many", false, other, ""}}
	return d
}

// a type holding all 28 kinds at once: diagonals and all 2-way combinations
func c01Wide(x *mc.Exec) {
	kinds := AllKinds()
	mode := x.Choose(1+len(kinds), "first") // 0 = diagonal, i>0 = pair with first kind i-1
	soft := x.Choose(2, "impl") == 0
	softU := x.Choose(2, "impl-other") == 0
	d, u := wideTypeD("t", "u"), wideTypeD("u", "t")
	schema := BuildSchema([]TypeD{d, u}, []bool{soft, softU})
	res := schema.Types[0].New()
	res.Set("id", "id1")
	desc := ""
	if mode == 0 {
		i := x.Choose(10, "diag")
		for n, k := range kinds {
			vals := Values(k, 0)
			res.Set(fmt.Sprintf("a%02d", n), CloneVal(vals[i%len(vals)]))
		}
		res.Set("one", []string{"", "x", "y z"}[i%3])
		res.Set("many", [][]string{{}, {"b", "a"}, {"c", "a", "b"}}[i%3])
		desc = fmt.Sprintf("diagonal %d", i)
	} else {
		a := mode - 1
		b := a + 1 + x.Choose(len(kinds)-a, "second")
		if b >= len(kinds) {
			// pair (a, relationship)
			va := Values(kinds[a], 5)
			i := x.Choose(len(va), "va")
			res.Set(fmt.Sprintf("a%02d", a), CloneVal(va[i]))
			res.Set("one", "o1")
			res.Set("many", []string{"m2", "m1"})
			desc = fmt.Sprintf("pair a%02d=%s with relationships", a, ShowVal(va[i]))
		} else {
			va, vb := Values(kinds[a], 5), Values(kinds[b], 5)
			i, jx := x.Choose(len(va), "va"), x.Choose(len(vb), "vb")
			res.Set(fmt.Sprintf("a%02d", a), CloneVal(va[i]))
			res.Set(fmt.Sprintf("a%02d", b), CloneVal(vb[jx]))
			desc = fmt.Sprintf("pair a%02d=%s a%02d=%s", a, ShowVal(va[i]), b, ShowVal(vb[jx]))
		}
	}
	x.Render(implName(soft) + " wide: " + desc)
	x.R.Mark("nontrivial", mc.Hash(x.Choices()))
	x.R.Sample("wide", implName(soft)+" wide: "+desc)
	c01Check(x, "wide", schema, res, soft, "wide")
}

// IDs and relationship values, across the four soft/struct schema mixes
func c01Rel(x *mc.Exec) {
	id := c01IDs[x.Choose(len(c01IDs), "id")]
	soft := x.Choose(2, "impl") == 0
	softU := x.Choose(2, "impl-other") == 0
	ones := []string{"", "o", "a b", "<&>", "日本", "\x01\x7f\U000E0001"}
	one := ones[x.Choose(len(ones), "to-one")]
	// includes ids that JSON must escape (control characters, DEL, a
	// non-printable supplementary-plane rune, quote and backslash)
	pool := []string{"a", "b", "c\x01\x7f", "\a\v\x00\U000E0001\"\\é"}
	n := x.Choose(4, "to-many len")
	many := []string{}
	for i := 0; i < n; i++ {
		many = append(many, pool[x.Choose(len(pool), "to-many id")])
	}
	d := TypeD{Name: "t", Attrs: []AttrD{{"s", Kind{j.AttrTypeString, false}}},
		Rels: []RelD{{"one", true, "u", "back"}, {"many", false, "u", ""}}}
	u := TypeD{Name: "u", Rels: []RelD{{"back", false, "t", "one"}}}
	schema := BuildSchema([]TypeD{d, u}, []bool{soft, softU})
	res := schema.Types[0].New()
	res.Set("id", id)
	res.Set("one", one)
	res.Set("many", append([]string{}, many...))
	desc := fmt.Sprintf("%s id=%q one=%q many=%v other=%s", implName(soft), id, one, many, implName(softU))
	x.Render(desc)
	x.R.Mark("nontrivial", mc.Hash(desc))
	x.R.Sample("rel", desc)
	c01Check(x, "rel", schema, res, soft, "rel")
}

func init() {
	Register(&Prop{
		ID: "C01",
		Rule: "Engine A, all choices Full: (a) 28 kinds x {soft,struct-backed} x every value of the kind's boundary alphabet (min/max of each width, uint64 > 2^63, NUL/multi-byte/HTML strings, zoned sub-second times in years 1..9999, empty/short byte strings, typed nil); (b) a 28-attribute type: 10 diagonals and all 2-way (kind,value) combinations with 5 values per kind, x 4 soft/struct schema mixes; (c) 10 IDs x 5 to-one x all to-many lists over {a,b,c} up to length 3 incl. repeats x 4 mixes. Each case goes through MarshalResource->UnmarshalResource and MarshalDocument->UnmarshalDocument; oracle = field-by-field comparator written in the harness (never the library's Equal). Every case is distinct by construction; all are counted non-trivial (each carries a boundary value or a pair)",
		Assumptions: []string{"years 1..9999, whole-minute zone offsets, valid UTF-8, no non-nil pointer to a nil byte slice (stated domain)", "to-many compared as sets; nil byte string == empty byte string"},
		Harnesses: []Harness{
			{Name: "C01/single", Body: c01Single},
			{Name: "C01/wide", Body: c01Wide},
			{Name: "C01/rel", Body: c01Rel},
		},
	})
}
