package props

import (
	"fmt"
	"reflect"
	"strings"
	"time"

	j "github.com/mfcochauxlaberge/jsonapi"

	"verif/mc"
)

// C18 — copies and new instances are independent of their source.

var c18T = TypeD{Name: "t",
	Attrs: []AttrD{{"s", Kind{j.AttrTypeString, false}}, {"y", Kind{j.AttrTypeBytes, false}}, {"py", Kind{j.AttrTypeBytes, true}},
		{"ps", Kind{j.AttrTypeString, true}}, {"pi", Kind{j.AttrTypeInt, true}}, {"w", Kind{j.AttrTypeTime, false}}, {"pw", Kind{j.AttrTypeTime, true}}},
	Rels: []RelD{{"one", true, "u", ""}, {"many", false, "u", ""}, {"single", false, "u", ""}}}

// c18Shapes: the full type, a type without relationships, a type without attributes
var c18Shapes = []string{"full", "attrs-only", "rels-only"}

func c18TypeD(shape string) TypeD {
	d := c18T
	switch shape {
	case "attrs-only":
		d.Rels = nil
	case "rels-only":
		d.Attrs = nil
	case "plain":
		// only plain-value attributes (no byte string, no pointer) next to the to-many lists
		d.Attrs = []AttrD{d.Attrs[0], d.Attrs[5]}
	}
	return d
}

func c18Source(soft bool, shape string) j.Resource { return c18SourceV(soft, shape, 0) }

// variant 1: byte strings that are empty but not nil (they marshal as "", not as null)
func c18SourceV(soft bool, shape string, variant int) j.Resource {
	r := c18SourceV0(soft, shape)
	if variant == 1 && !soft {
		// the struct was filled in by the program before it was wrapped: its ID (with blanks at
		// both ends) never went through Set
		ptr := reflect.New(c18TypeD(shape).StructType())
		ptr.Elem().FieldByName("ID").SetString(" padded id\t")
		r = c18Fill(j.Wrap(ptr.Interface()), false)
	}
	if variant == 1 {
		c18SetIf(r, "y", []byte{})
		py := []byte{}
		c18SetIf(r, "py", &py)
		c18SetIf(r, "ps", Ptr(""))
		c18SetIf(r, "pi", Ptr(int(0)))
		c18SetIf(r, "many", []string{})
		if soft {
			r.Set("id", " padded id\t")
		}
		// the zero instant, read in a zone, and a pointer to it: values like any other
		c18SetIf(r, "w", time.Time{}.In(zPlus))
		c18SetIf(r, "pw", Ptr(time.Time{}))
	}
	return r
}

func c18SourceV0(soft bool, shape string) j.Resource {
	return c18Fill(c18TypeD(shape).NewRes(soft), true)
}

func c18Fill(r j.Resource, setID bool) j.Resource {
	if setID {
		r.Set("id", "src")
	}
	c18SetIf(r, "s", "v")
	c18SetIf(r, "y", []byte{3, 1, 2})
	py := []byte{4, 5}
	c18SetIf(r, "py", &py)
	c18SetIf(r, "ps", Ptr("p"))
	c18SetIf(r, "pi", Ptr(int(7)))
	c18SetIf(r, "w", TimeAlph[4])
	c18SetIf(r, "pw", Ptr(TimeAlph[5]))
	c18SetIf(r, "one", "x")
	c18SetIf(r, "many", []string{"c", "a", "b"})
	c18SetIf(r, "single", []string{"only"})
	return r
}

// c18SetIf sets a field if the resource's type declares it (the shapes leave fields out).
func c18SetIf(r j.Resource, name string, v any) {
	if _, ok := r.Attrs()[name]; ok {
		r.Set(name, v)
	} else if _, ok := r.Rels()[name]; ok {
		r.Set(name, v)
	}
}

// c18Read renders everything readable from r through the Resource interface.
func c18Read(r j.Resource) (out string) {
	if p := Try(func() {
		var b strings.Builder
		fmt.Fprintf(&b, "type=%q id=%v ", r.GetType().Name, r.Get("id"))
		attrs, rels := r.Attrs(), r.Rels()
		for _, n := range SortedKeys(attrs) {
			a := attrs[n]
			fmt.Fprintf(&b, "%s(%s)=%s ", n, j.GetAttrTypeString(a.Type, a.Nullable), ShowVal(r.Get(n)))
		}
		for _, n := range SortedKeys(rels) {
			fmt.Fprintf(&b, "%s=%v ", n, r.Get(n))
		}
		t := r.GetType()
		fmt.Fprintf(&b, "type-fields=%v", FieldNames(t))
		out = b.String()
	}); p != "" {
		return "PANIC: " + p
	}
	return out
}

type c18Mut struct {
	name string
	do   func(r j.Resource)
}

func c18Muts() []c18Mut {
	return []c18Mut{
		{"Set(s)", func(r j.Resource) { r.Set("s", "changed") }},
		{"Set(y)", func(r j.Resource) { r.Set("y", []byte{9}) }},
		{"Set(many)", func(r j.Resource) { r.Set("many", []string{"z"}) }},
		{"Set(ps)", func(r j.Resource) { r.Set("ps", Ptr("q")) }},
		{"Set(id)", func(r j.Resource) { r.Set("id", "other") }},
		{"type.AddAttr(extra)", func(r j.Resource) {
			if sr, ok := r.(*j.SoftResource); ok {
				sr.AddAttr(j.Attr{Name: "extra", Type: j.AttrTypeBool})
			}
		}},
		{"type.AddRel(extrarel)", func(r j.Resource) {
			if sr, ok := r.(*j.SoftResource); ok {
				sr.AddRel(j.Rel{FromType: "t", FromName: "extrarel", ToType: "u"})
			}
		}},
		{"delete(Attrs(), \"s\")", func(r j.Resource) { delete(r.Attrs(), "s") }},
		// the soft resource's type is an exported pointer: edits made through it
		{"Type.AddAttr(extra3)", func(r j.Resource) {
			if sr, ok := r.(*j.SoftResource); ok && sr.Type != nil {
				_ = sr.Type.AddAttr(j.Attr{Name: "extra3", Type: j.AttrTypeString})
			}
		}},
		{"Type.RemoveAttr(s) + Type.Name = renamed", func(r j.Resource) {
			if sr, ok := r.(*j.SoftResource); ok && sr.Type != nil {
				sr.Type.RemoveAttr("s")
				sr.Type.RemoveRel("one")
				sr.Type.Name = "renamed"
			}
		}},
		{"GetType().AddAttr(extra2)", func(r j.Resource) {
			t := r.GetType()
			_ = t.AddAttr(j.Attr{Name: "extra2", Type: j.AttrTypeInt})
		}},
		{"delete(Rels(), \"one\")", func(r j.Resource) { delete(r.Rels(), "one") }},
		{"type.RemoveField(s)", func(r j.Resource) {
			if sr, ok := r.(*j.SoftResource); ok {
				sr.RemoveField("s")
			}
		}},
		{"type.RemoveField(many)", func(r j.Resource) {
			if sr, ok := r.(*j.SoftResource); ok {
				sr.RemoveField("many")
			}
		}},
		{"MarshalResource(all fields, all data)", func(r j.Resource) {
			if _, ok := r.Get("id").(string); !ok {
				return
			}
			t := r.GetType()
			_ = j.MarshalResource(r, "", FieldNames(t), map[string][]string{t.Name: RelNames(t)})
		}},
		{"Filter(many = [a b c]).IsAllowed", func(r j.Resource) {
			if _, ok := r.Rels()["many"]; ok {
				(&j.Filter{Field: "many", Op: "=", Val: []string{"b", "c", "a"}}).IsAllowed(r)
			}
		}},
		{"Get(y)[0] = 0xEE", func(r j.Resource) {
			if b, ok := r.Get("y").([]byte); ok && len(b) > 0 {
				b[0] = 0xEE
			}
		}},
		{"Get(many)[0] = \"MUT\"", func(r j.Resource) {
			if l, ok := r.Get("many").([]string); ok && len(l) > 0 {
				l[0] = "MUT"
			}
		}},
		{"Get(single)[0] = \"MUT\"", func(r j.Resource) {
			if l, ok := r.Get("single").([]string); ok && len(l) > 0 {
				l[0] = "MUT"
			}
		}},
		// a program extends a list it read from the resource and stores it back
		{"Set(many, append(Get(many), x1, x2))", func(r j.Resource) {
			if l, ok := r.Get("many").([]string); ok {
				r.Set("many", append(l, "x1", "x2"))
			}
		}},
		{"Set(y, append(Get(y), 7, 7, 7))", func(r j.Resource) {
			if b, ok := r.Get("y").([]byte); ok {
				r.Set("y", append(b, 7, 7, 7))
			}
		}},
		{"(*Get(py))[0] = 0xEE", func(r j.Resource) {
			if p, ok := r.Get("py").(*[]byte); ok && p != nil && len(*p) > 0 {
				(*p)[0] = 0xEE
			}
		}},
	}
}

type c18Sys struct {
	how     string
	src     j.Resource
	der     j.Resource
	muts    []c18Mut
	initErr string
	// Reading a resource is an operation too (a lazily copying implementation
	// un-shares on the first read), so Apply only acts. The twin is an equal pair
	// that lags one operation behind: what is read from it is what the other
	// side showed before the last operation.
	twin    *c18Sys
	pending int
	eager   bool
}

func c18New(soft bool, how, shape string) *c18Sys {
	y := c18NewV(soft, how, shape, 0)
	y.twin = c18NewV(soft, how, shape, 0)
	y.pending = -1
	return y
}

func c18NewV(soft bool, how, shape string, variant int) *c18Sys {
	y := &c18Sys{how: how + "/" + shape, muts: c18Muts(), pending: -1}
	y.src = c18SourceV(soft, shape, variant)
	if p := Try(func() {
		c := y.src.(j.Copier)
		if how == "Copy" {
			y.der = c.Copy()
		} else {
			y.der = c.New()
		}
	}); p != "" {
		y.initErr = p
	}
	return y
}

// (the deep snapshot is taken BEFORE anything is read through the interface)
func (y *c18Sys) Key() string {
	snap := mc.Snap(y.src, y.der)
	return snap + " || " + c18Read(y.src) + " || " + c18Read(y.der)
}

// act performs operation op (a mutation of one side, or the read-everything op) on this pair
func (y *c18Sys) act(op int) (panicked bool) {
	if op == 2*len(y.muts) {
		_, _ = c18Read(y.src), c18Read(y.der)
		return false
	}
	target := y.src
	if op >= len(y.muts) {
		target = y.der
	}
	return Try(func() { y.muts[op%len(y.muts)].do(target) }) != ""
}

func (y *c18Sys) sig() string {
	impl := "wrap"
	if _, ok := y.src.(*j.SoftResource); ok {
		impl = "soft"
	}
	return fmt.Sprintf("C18:%s:%s:", impl, y.how)
}

func (y *c18Sys) Apply(op int) (fails []mc.Violation, fatal bool) {
	if y.initErr != "" {
		return []mc.Violation{{Sig: y.sig() + "derive-panic", Msg: fmt.Sprintf("%s() panicked: %s", y.how, y.initErr)}}, true
	}
	if y.eager && op < 2*len(y.muts) {
		// second search (one level shallower): both sides are read around every mutation
		other, side, other2 := y.der, "source", "derived object"
		if op >= len(y.muts) {
			other, side, other2 = y.src, "derived", "source"
		}
		before := c18Read(other)
		fatal = y.act(op)
		if after := c18Read(other); after != before {
			m := y.muts[op%len(y.muts)]
			fails = append(fails, mc.Violation{Sig: y.sig() + "shared:" + m.name,
				Msg: fmt.Sprintf("%s(): %s on the %s changed what is read from the %s (everything read before and after every step):\n  before: %s\n  after:  %s", y.how, m.name, side, other2, before, after)})
		}
		return
	}
	if y.pending >= 0 {
		y.twin.act(y.pending)
	}
	y.pending = op
	// a mutation that panics (e.g. marshaling a wrapped struct after a field was
	// added to its type maps by hand) is not C18's business: the state is not
	// expanded, the other side is still compared in Final
	return nil, y.act(op)
}

// Final: the last operation must not have changed anything read from the other side.
func (y *c18Sys) Final() (fails []mc.Violation, fatal bool) {
	if y.eager {
		return nil, false
	}
	op := y.pending
	if op < 0 || op == 2*len(y.muts) || y.initErr != "" {
		return nil, false
	}
	side, other, twinOther, other2 := "source", y.der, y.twin.der, "derived object"
	if op >= len(y.muts) {
		side, other, twinOther, other2 = "derived", y.src, y.twin.src, "source"
	}
	m := y.muts[op%len(y.muts)]
	before, after := c18Read(twinOther), c18Read(other)
	if after != before {
		impl := "wrap"
		if _, ok := y.src.(*j.SoftResource); ok {
			impl = "soft"
		}
		fails = append(fails, mc.Violation{Sig: y.sig() + "shared:" + m.name,
			Msg: fmt.Sprintf("%s %s(): %s on the %s changed what is read from the %s:\n  before: %s\n  after:  %s", impl, y.how, m.name, side, other2, before, after)})
	}
	return
}

func c18BFS(c *Ctx, soft bool, how, shape string) *mc.BFS { return c18BFSMode(c, soft, how, shape, false) }

func c18BFSMode(c *Ctx, soft bool, how, shape string, eager bool) *mc.BFS {
	depth := 3
	if Thorough() {
		depth = 4
	}
	name := fmt.Sprintf("C18/%s-%s-%s", implName(soft), how, shape)
	if eager {
		depth--
		name += "-read-around-every-step"
	} else if how == "New" && !Thorough() {
		// a zero-valued sibling shares less with its source than a copy: one level less in the quick tier
		depth--
	}
	muts := c18Muts()
	return &mc.BFS{
		Name: name, NOps: 2*len(muts) + 1, MaxDepth: depth, Workers: c.Workers, R: c.R,
		OpName: func(i int) string {
			if i == 2*len(muts) {
				return "read everything from both"
			}
			side := "source: "
			if i >= len(muts) {
				side = "derived: "
			}
			return side + muts[i%len(muts)].name
		},
		New: func() mc.System { y := c18New(soft, how, shape); y.eager = eager; return y },
	}
}

// right after the derivation: same type name, fields, id, values (Copy) / zero values (New)
func c18Initial(x *mc.Exec) {
	soft := x.Choose(2, "impl") == 0
	how := []string{"Copy", "New"}[x.Choose(2, "derivation")]
	shape := "full"
	if soft {
		shape = c18Shapes[x.Choose(len(c18Shapes), "shape")]
	}
	variant := x.Choose(2, "values")
	y := c18NewV(soft, how, shape, variant)
	x.R.Add("transitions", 1)
	x.R.Mark("nontrivial", mc.Hash(soft, how, shape, variant))
	sig := fmt.Sprintf("C18:%s:%s:", implName(soft), how)
	if y.initErr != "" {
		x.Fail(sig+"derive-panic", "%s.%s() panicked: %s", implName(soft), how, y.initErr)
		return
	}
	if how == "Copy" {
		if d := CompareRes(y.src, y.der, nil); d != nil {
			x.Fail(sig+"copy-differs:"+d.What, "%s Copy(): %s", implName(soft), d.Msg)
		}
		if got, want := FieldNames(y.der.GetType()), FieldNames(y.src.GetType()); fmt.Sprint(got) != fmt.Sprint(want) {
			x.Fail(sig+"copy-fields", "%s Copy(): fields %v, source has %v", implName(soft), got, want)
		}
		// to-many lists are values too: same ids in the same order, and the library's own
		// equality helper agrees
		for _, n := range RelNames(y.src.GetType()) {
			a, aok := y.src.Get(n).([]string)
			b, bok := y.der.Get(n).([]string)
			if aok && (!bok || len(a) != len(b) || (len(a) > 0 && !reflect.DeepEqual(a, b))) {
				x.Fail(sig+"copy-differs:to-many-order", "%s Copy(): relationship %q reads %v from the copy, %v from the source", implName(soft), n, y.der.Get(n), a)
			}
		}
		var eq bool
		if p := Try(func() { eq = j.EqualStrict(y.src, y.der) && j.EqualStrict(y.der, y.src) }); p != "" || !eq {
			x.Fail(sig+"copy-not-equal", "%s Copy(): EqualStrict(source, copy) is false right after copying (panic %q)", implName(soft), p)
		}
		// the same values also means the same payload (an empty byte string is not a null one)
		t := y.src.GetType()
		var ms, md []byte
		if p := Try(func() {
			ms = j.MarshalResource(y.src, "", FieldNames(t), map[string][]string{t.Name: RelNames(t)})
			md = j.MarshalResource(y.der, "", FieldNames(t), map[string][]string{t.Name: RelNames(t)})
		}); p != "" || string(ms) != string(md) {
			x.Fail(sig+"copy-marshals-differently", "%s Copy(): the copy marshals differently from its source (panic %q):\n  source: %s\n  copy:   %s", implName(soft), p, ms, md)
		}
	} else {
		z := c18TypeD(shape).NewRes(soft)
		if d := CompareRes(z, y.der, nil); d != nil {
			x.Fail(sig+"new-not-zero:"+d.What, "%s New(): %s", implName(soft), d.Msg)
		}
	}
}

// ---- Type.Copy ----------------------------------------------------------------

type c18TypeSys struct {
	src, cpy j.Type
	initDiff string
}

func renderType(t j.Type) string {
	return renderTypes([]string{t.Name}, []map[string]j.Attr{t.Attrs}, []map[string]j.Rel{t.Rels})
}

var c18TypeOps = []string{"AddAttr(new)", "RemoveAttr(s)", "AddRel(new)", "RemoveRel(many)", "RemoveAttr(new)", "New() then AddAttr(vianew) / RemoveField(y) through the new resource"}

func (y *c18TypeSys) Key() string { return renderType(y.src) + "||" + renderType(y.cpy) }

func (y *c18TypeSys) Apply(op int) (fails []mc.Violation, fatal bool) {
	if y.initDiff != "" {
		return []mc.Violation{{Sig: "C18:type-copy:differs", Msg: "Type.Copy() differs from its source: " + y.initDiff}}, true
	}
	target, other := &y.src, &y.cpy
	side := "source"
	if op >= len(c18TypeOps) {
		target, other = &y.cpy, &y.src
		side = "copy"
	}
	before := renderType(*other)
	name := c18TypeOps[op%len(c18TypeOps)]
	if p := Try(func() {
		switch op % len(c18TypeOps) {
		case 0:
			_ = target.AddAttr(j.Attr{Name: "new", Type: j.AttrTypeInt})
		case 1:
			target.RemoveAttr("s")
		case 2:
			_ = target.AddRel(j.Rel{FromType: "t", FromName: "newrel", ToType: "u"})
		case 3:
			target.RemoveRel("many")
		case 4:
			target.RemoveAttr("new")
		case 5:
			// a resource created from this type edits its own type: that is this type, not the other one
			if sr, ok := target.New().(*j.SoftResource); ok {
				sr.AddAttr(j.Attr{Name: "vianew", Type: j.AttrTypeBool})
				sr.RemoveField("y")
			}
		}
	}); p != "" {
		return []mc.Violation{{Sig: "C18:type-copy:panic", Msg: name + " panicked: " + p}}, true
	}
	if after := renderType(*other); after != before {
		fails = append(fails, mc.Violation{Sig: "C18:type-copy:shared:" + name,
			Msg: fmt.Sprintf("Type.Copy(): %s on the %s changed the other type from [%s] to [%s]", name, side, before, after)})
	}
	return
}

func c18TypeBFS(c *Ctx, shape string) *mc.BFS {
	return &mc.BFS{
		Name: "C18/type-copy-" + shape, NOps: 2 * len(c18TypeOps), MaxDepth: 4, Workers: c.Workers, R: c.R,
		OpName: func(i int) string {
			if i >= len(c18TypeOps) {
				return "copy: " + c18TypeOps[i%len(c18TypeOps)]
			}
			return "source: " + c18TypeOps[i]
		},
		New: func() mc.System {
			src := c18TypeD(strings.TrimSuffix(strings.TrimSuffix(shape, "+keys-differ"), "+used")).SoftType()
			if strings.HasSuffix(shape, "+keys-differ") {
				// maps built by hand: the keys are not the fields' names, and two keys hold
				// definitions with one name
				attrs, rels := map[string]j.Attr{}, map[string]j.Rel{}
				for n, a := range src.Attrs {
					attrs["key-of-"+n] = a
					if n == "s" {
						attrs["second-key-of-"+n] = a
					}
				}
				for n, r := range src.Rels {
					rels["key-of-"+n] = r
				}
				src.Attrs, src.Rels = attrs, rels
			}
			y := &c18TypeSys{src: src}
			if strings.HasSuffix(shape, "+used") {
				// the source type has already produced a resource before it is copied
				_ = y.src.New()
			}
			if p := Try(func() { y.cpy = y.src.Copy() }); p != "" {
				y.initDiff = "panic: " + p
			} else if renderType(y.src) != renderType(y.cpy) {
				y.initDiff = fmt.Sprintf("source [%s], copy [%s]", renderType(y.src), renderType(y.cpy))
			}
			return y
		},
	}
}

// c18FirstWrapper: a struct type that has never been wrapped in this process (a
// fresh run-time type per execution); the type maps of the FIRST wrapper are
// mutated, then ANOTHER resource of the type is wrapped and copied: the copy must
// have the fields of its source (a per-type cache seeded with the first
// wrapper's own maps would hand the mutated ones to everybody).
var c18Fresh int

func c18FirstWrapper(x *mc.Exec) {
	mut := x.Choose(4, "mutation of the first wrapper")
	derive := x.Choose(3, "derivation")
	c18Fresh++
	d := TypeD{Name: fmt.Sprintf("fresh%d_%d_%d", c18Fresh, mut, derive), Attrs: []AttrD{{"title", kStr}, {"views", kInt}}, Rels: []RelD{{"tags", false, "u", ""}}}
	first := d.NewRes(false)
	switch mut {
	case 1:
		delete(first.Attrs(), "title")
	case 2:
		delete(first.Rels(), "tags")
	case 3:
		t := first.GetType()
		_ = t.AddAttr(j.Attr{Name: "extra", Type: j.AttrTypeBool})
	}
	src := d.NewRes(false)
	src.Set("id", "s1")
	src.Set("title", "T")
	src.Set("tags", []string{"x"})
	var der j.Resource
	names := []string{"Copy()", "New()", "Wrap again"}
	if p := Try(func() {
		switch derive {
		case 0:
			der = src.(j.Copier).Copy()
		case 1:
			der = src.(j.Copier).New()
		case 2:
			der = d.NewRes(false)
		}
	}); p != "" {
		x.Fail("C18:first-wrapper:panic", "%s panicked after the first wrapper's type maps were edited: %s", names[derive], p)
		return
	}
	x.R.Add("transitions", 1)
	x.R.Mark("nontrivial", mc.Hash(mut, derive))
	want := []string{"tags", "title", "views"}
	if got := FieldNames(src.GetType()); fmt.Sprint(got) != fmt.Sprint(want) {
		x.Fail("C18:first-wrapper:source-fields", "a second resource of the type has fields %v after another wrapper's type was edited (mutation %d)", got, mut)
	}
	if got := FieldNames(der.GetType()); fmt.Sprint(got) != fmt.Sprint(want) {
		x.Fail("C18:first-wrapper:derived-fields", "%s of a second resource has fields %v, its source has %v (mutation %d of the first wrapper)", names[derive], got, want, mut)
	}
}

// c18SoftNewFunc: a soft resource whose type came from BuildType (NewFunc set)
// and was edited afterwards: New() and Copy() give a resource of the CURRENT type.
func c18SoftNewFunc(x *mc.Exec) {
	edit := x.Choose(3, "edit")
	how := x.Choose(2, "derivation")
	typ := c18T.StructBuiltType()
	ct := typ.Copy()
	sr := &j.SoftResource{Type: &ct}
	sr.Set("id", "n1")
	sr.Set("s", "v")
	switch edit {
	case 1:
		sr.AddAttr(j.Attr{Name: "score", Type: j.AttrTypeInt})
	case 2:
		sr.RemoveField("s")
	}
	var der j.Resource
	if p := Try(func() {
		if how == 0 {
			der = sr.New()
		} else {
			der = sr.Copy()
		}
	}); p != "" {
		x.Fail("C18:soft-newfunc:panic", "derivation panicked: %s", p)
		return
	}
	x.R.Add("transitions", 1)
	x.R.Mark("nontrivial", mc.Hash(edit, how))
	if got, want := FieldNames(der.GetType()), FieldNames(sr.GetType()); fmt.Sprint(got) != fmt.Sprint(want) || der.GetType().Name != sr.GetType().Name {
		x.Fail("C18:soft-newfunc:type", "%s of a soft resource whose type has a NewFunc and was edited (edit %d) has fields %v, the source has %v", []string{"New()", "Copy()"}[how], edit, got, want)
	}
}

func init() {
	var hs []Harness
	for _, soft := range []bool{true, false} {
		for _, how := range []string{"Copy", "New"} {
			for _, shape := range append(append([]string{}, c18Shapes...), "plain") {
				if (!soft && shape != "full" && shape != "plain") || (soft && shape == "plain") {
					continue
				}
				soft, how, shape := soft, how, shape
				hs = append(hs, Harness{
					Name: fmt.Sprintf("C18/%s-%s-%s-read-around-every-step", implName(soft), how, shape),
					Custom: func(c *Ctx) {
						if !c18BFSMode(c, soft, how, shape, true).Explore() {
							c.R.Cap("C18 incomplete")
						}
					},
					ReplayCustom: func(c *Ctx, ch []int) []mc.Violation {
						v, _ := c18BFSMode(c, soft, how, shape, true).ReplayHistory(ch)
						return v
					},
				})
				hs = append(hs, Harness{
					Name: fmt.Sprintf("C18/%s-%s-%s", implName(soft), how, shape),
					Custom: func(c *Ctx) {
						if !c18BFS(c, soft, how, shape).Explore() {
							c.R.Cap("C18 incomplete")
						}
					},
					ReplayCustom: func(c *Ctx, ch []int) []mc.Violation {
						v, _ := c18BFS(c, soft, how, shape).ReplayHistory(ch)
						return v
					},
				})
			}
		}
	}
	for _, shape := range append(append([]string{}, c18Shapes...), "full+keys-differ", "full+used") {
		shape := shape
		hs = append(hs, Harness{Name: "C18/type-copy-" + shape,
			Custom:       func(c *Ctx) { c18TypeBFS(c, shape).Explore(); c.R.Sets["nontrivial"] = c.R.Sets["states"] },
			ReplayCustom: func(c *Ctx, ch []int) []mc.Violation { v, _ := c18TypeBFS(c, shape).ReplayHistory(ch); return v },
		})
	}
	hs = append(hs, Harness{Name: "C18/initial", Body: c18Initial},
		Harness{Name: "C18/first-wrapper", Body: c18FirstWrapper}, Harness{Name: "C18/soft-newfunc", Body: c18SoftNewFunc})
	Register(&Prop{
		ID: "C18",
		Rule: "Engine B: for {soft, wrapped} x {Copy(), New()} (soft also for a type without relationships and a type without attributes, wrapped also for a struct with plain-value attributes only) a source resource holding a byte string, a pointer to a byte string, nullable pointers, a time and an unsorted 3-element to-many list and a 1-element to-many list is derived, then ALL histories (depth <= 3 quick - 2 for New() - / 4 thorough) of 22 mutations applied to either side plus the operation 'read everything from both' (Set of several fields and id, AddAttr/AddRel/RemoveField on its type, edits through the soft resource's exported Type pointer, deleting from / adding to the maps returned by Attrs(), Rels() and GetType(), MarshalResource with relationship data (sorts in place), Filter '=' on the to-many (sorts in place), writing element 0 of the slices obtained from Get for []byte, []string and *[]byte, appending to a slice obtained from Get and storing it back) are explored with deep-snapshot de-duplication; nothing is read between the operations of a history (reading is an operation; a second, one level shallower search reads both sides around every step): after the last mutation everything readable from the OTHER side must equal what an equal pair that underwent all but that mutation shows. Same for Type.Copy under AddAttr/RemoveAttr/AddRel/RemoveRel (also for a type whose map keys are not its fields' names and for a type that has already produced a resource; one operation edits a type through a resource created from it). Engine A: the derived object right after derivation equals its source and marshals identically, also when its byte strings are empty but non-nil (Copy) / is zero-valued (New). Every state is a distinct pair of heaps",
		Assumptions: []string{"writing through a nullable pointer obtained from Get (other than the slice behind *[]byte) is not judged: the statement lists slices only"},
		Harnesses: hs,
	})
}
