package props

import (
	"bytes"
	"fmt"
	"math/big"
	"reflect"
	"time"

	j "github.com/mfcochauxlaberge/jsonapi"

	"verif/mc"
)

// C10 — filters evaluate according to their logical and comparison semantics.

// (the last ones are unknown operators too: known ones in another letter case or padded)
var c10Ops = []string{"=", "!=", "<", "<=", ">", ">=", "~unknown", "", " =", "<= ", "AND"}

// refCmp is the natural total order of a base value (independent of the
// library): numeric, lexicographic for strings and byte strings,
// chronological for times. ok=false: the kind is not ordered (bool).
func refCmp(a, b any) (c int, ordered bool) {
	switch av := a.(type) {
	case string:
		bv := b.(string)
		switch {
		case av < bv:
			return -1, true
		case av > bv:
			return 1, true
		}
		return 0, true
	case []byte:
		return bytes.Compare(av, b.([]byte)), true
	case time.Time:
		bv := b.(time.Time)
		switch {
		case av.Before(bv):
			return -1, true
		case av.After(bv):
			return 1, true
		}
		return 0, true
	case bool:
		if av == b.(bool) {
			return 0, false
		}
		return 1, false
	}
	// integers through math/big
	x, y := toBig(a), toBig(b)
	return x.Cmp(y), true
}

func toBig(v any) *big.Int {
	rv := reflect.ValueOf(v)
	switch rv.Kind() {
	case reflect.Int, reflect.Int8, reflect.Int16, reflect.Int32, reflect.Int64:
		return big.NewInt(rv.Int())
	case reflect.Uint, reflect.Uint8, reflect.Uint16, reflect.Uint32, reflect.Uint64:
		return new(big.Int).SetUint64(rv.Uint())
	}
	panic(fmt.Sprintf("toBig(%T)", v))
}

// refLeaf is the reference verdict of (resource value rv) op (filter value fv)
// for an attribute.
func refLeaf(op string, rv, fv any) (want bool, class string) {
	rn, fn := IsNilVal(rv), IsNilVal(fv)
	if rn || fn {
		class = "val-vs-nil"
		if rn && fn {
			class = "nil-vs-nil"
		} else if rn {
			class = "nil-vs-val"
		}
		switch op {
		case "=":
			return rn && fn, class
		case "!=":
			return !(rn && fn), class
		}
		return false, class
	}
	c, ordered := refCmp(Deref(rv), Deref(fv))
	class = map[int]string{-1: "lt", 0: "eq", 1: "gt"}[c]
	switch op {
	case "=":
		return c == 0, class
	case "!=":
		return c != 0, class
	}
	if !ordered {
		return false, class
	}
	switch op {
	case "<":
		return c < 0, class
	case "<=":
		return c <= 0, class
	case ">":
		return c > 0, class
	case ">=":
		return c >= 0, class
	}
	return false, class
}

func c10Leaf(x *mc.Exec) {
	kinds := AllKinds()
	ki := x.Choose(len(kinds), "kind")
	soft := x.Choose(2, "impl") == 0
	k := kinds[ki]
	impl := "wrap"
	if soft {
		impl = "soft"
	}
	size := 7
	if Thorough() {
		size = 0
	}
	d := TypeD{Name: "t", Attrs: []AttrD{{"a", k}}}
	nv := len(Values(k, size))
	for _, op := range c10Ops {
		for ri := 0; ri < nv; ri++ {
			for fi := 0; fi < nv; fi++ {
				rv := Values(k, size)[ri]
				fv := Values(k, size)[fi]
				res := d.NewRes(soft)
				res.Set("a", rv)
				f := &j.Filter{Field: "a", Op: op, Val: fv}
				want, class := refLeaf(op, rv, fv)
				var got bool
				p := Try(func() { got = f.IsAllowed(res) })
				x.R.Add("transitions", 1)
				x.Observe(got, p)
				if class != "eq" && class != "nil-vs-nil" {
					x.R.Mark("nontrivial", mc.Hash(impl, k.String(), op, ri, fi))
				}
				switch {
				case p != "":
					x.Fail(fmt.Sprintf("C10:leaf:%s:%s:op%s:%s:panic", impl, k, op, class),
						"IsAllowed panicked (%s) for %s resource: %s %s %s", p, impl, ShowVal(rv), op, ShowVal(fv))
				case got != want:
					x.Fail(fmt.Sprintf("C10:leaf:%s:%s:op%s:%s", impl, k, op, class),
						"%s resource of kind %s: (%s %q %s) = %v, reference says %v", impl, k, ShowVal(rv), op, ShowVal(fv), got, want)
				}
				if ri == 1 && fi == 2 && op == "<" {
					x.R.Sample("leaf", fmt.Sprintf("%s %s: %s < %s -> %v", impl, k, ShowVal(rv), ShowVal(fv), got))
				}
			}
		}
	}
	// one instant read in two zones: chronologically equal
	if k.Type == j.AttrTypeTime {
		for _, op := range c10Ops {
			for _, pair := range [][2]time.Time{{TimeAlph[4], TimeAlph[4].UTC()}, {TimeAlph[5].UTC(), TimeAlph[5]}, {TimeAlph[4], TimeAlph[4].In(zMinus)}} {
				var rv, fv any = pair[0], pair[1]
				if k.Nullable {
					rv, fv = Ptr(pair[0]), Ptr(pair[1])
				}
				res := d.NewRes(soft)
				res.Set("a", rv)
				want, class := refLeaf(op, rv, fv)
				var got bool
				p := Try(func() { got = (&j.Filter{Field: "a", Op: op, Val: fv}).IsAllowed(res) })
				x.R.Add("transitions", 1)
				x.R.Mark("nontrivial", mc.Hash(impl, k.String(), op, "zones", pair[0].String()))
				if p != "" || got != want {
					x.Fail(fmt.Sprintf("C10:leaf:%s:%s:op%s:%s:same-instant-other-zone", impl, k, op, class),
						"%s resource of kind %s: (%s %q %s) = %v (panic %q), reference says %v", impl, k, ShowVal(rv), op, ShowVal(fv), got, p, want)
				}
			}
		}
	}
	// the filter value is the very object the resource holds (a program filtering by a value it
	// took from a resource): same verdicts as for an equal value
	for _, op := range c10Ops {
		for ri := 0; ri < nv; ri++ {
			rv := Values(k, size)[ri]
			res := d.NewRes(soft)
			res.Set("a", rv)
			held := res.Get("a")
			if held == nil {
				// a wrapped struct reads a nil pointer field as an untyped nil, which is not a
				// well-typed filter value (see Assumptions)
				continue
			}
			want, class := refLeaf(op, rv, CloneVal(rv))
			var got bool
			p := Try(func() { got = (&j.Filter{Field: "a", Op: op, Val: held}).IsAllowed(res) })
			x.R.Add("transitions", 1)
			if p != "" || got != want {
				x.Fail(fmt.Sprintf("C10:leaf:%s:%s:op%s:%s:same-object", impl, k, op, class),
					"%s resource of kind %s: (%s %q the value obtained from the resource itself) = %v (panic %q), reference says %v", impl, k, ShowVal(rv), op, got, p, want)
			}
		}
	}
	// trichotomy / complementarity laws, asserted directly on the library
	for ri := 0; ri < nv; ri++ {
		for fi := 0; fi < nv; fi++ {
			rv := Values(k, size)[ri]
			fv := Values(k, size)[fi]
			if IsNilVal(rv) || IsNilVal(fv) || k.Type == j.AttrTypeBool {
				continue
			}
			res := d.NewRes(soft)
			res.Set("a", rv)
			n := 0
			var eq, ne, lt, le bool
			p := Try(func() {
				for _, op := range []string{"<", "=", ">"} {
					if (&j.Filter{Field: "a", Op: op, Val: CloneVal(fv)}).IsAllowed(res) {
						n++
					}
				}
				eq = (&j.Filter{Field: "a", Op: "=", Val: CloneVal(fv)}).IsAllowed(res)
				ne = (&j.Filter{Field: "a", Op: "!=", Val: CloneVal(fv)}).IsAllowed(res)
				lt = (&j.Filter{Field: "a", Op: "<", Val: CloneVal(fv)}).IsAllowed(res)
				le = (&j.Filter{Field: "a", Op: "<=", Val: CloneVal(fv)}).IsAllowed(res)
			})
			x.R.Add("transitions", 7)
			if p != "" {
				continue // reported above
			}
			if n != 1 {
				x.Fail(fmt.Sprintf("C10:law:trichotomy:%s:%s", impl, k),
					"%s kind %s: %d of <,=,> hold for %s vs %s", impl, k, n, ShowVal(rv), ShowVal(fv))
			}
			if eq == ne {
				x.Fail(fmt.Sprintf("C10:law:complement:%s:%s", impl, k),
					"%s kind %s: = and != both %v for %s vs %s", impl, k, eq, ShowVal(rv), ShowVal(fv))
			}
			if le != (lt || eq) {
				x.Fail(fmt.Sprintf("C10:law:le:%s:%s", impl, k),
					"%s kind %s: <= is %v but < is %v and = is %v for %s vs %s", impl, k, le, lt, eq, ShowVal(rv), ShowVal(fv))
			}
		}
	}
}

// relationship leaves: to-one (=, !=, in) and to-many (=, !=, has, never ordered)
func c10CloneList(l []string) []string {
	if l == nil {
		return nil
	}
	return append([]string{}, l...)
}

func c10Rel(x *mc.Exec) {
	soft := x.Choose(2, "impl") == 0
	impl := "wrap"
	if soft {
		impl = "soft"
	}
	d := TypeD{Name: "t", Rels: []RelD{{"one", true, "t", ""}, {"many", false, "t", ""}}}
	ids := []string{"", "a", "b", "ab"}
	// nil: a to-many field never assigned (struct) / a nil list given as the filter value
	lists := [][]string{nil, {}, {"a"}, {"b"}, {"a", "b"}, {"b", "a"}, {"a", "b", "c"}, {"c", "b", "a"}, {"a", "c"}, {"ab"},
		// the empty id is an id like any other
		{"", "a"}, {"b", ""}, {""}}
	asSet := func(l []string) map[string]bool {
		m := map[string]bool{}
		for _, s := range l {
			m[s] = true
		}
		return m
	}
	// to-one
	for _, op := range []string{"=", "!=", "in", "~unknown"} {
		for _, rv := range ids {
			if op == "in" {
				for _, fl := range lists {
					res := d.NewRes(soft)
					res.Set("one", rv)
					var got bool
					p := Try(func() {
						got = (&j.Filter{Field: "one", Op: "in", Val: c10CloneList(fl)}).IsAllowed(res)
					})
					x.R.Add("transitions", 1)
					want := asSet(fl)[rv]
					x.R.Mark("nontrivial", mc.Hash(impl, "one-in", rv, fmt.Sprint(fl)))
					if p != "" || got != want {
						x.Fail(fmt.Sprintf("C10:rel:%s:to-one:in", impl), "%s: %q in %v = %v (panic %q), reference %v", impl, rv, fl, got, p, want)
					}
				}
				continue
			}
			for _, fv := range ids {
				res := d.NewRes(soft)
				res.Set("one", rv)
				var got bool
				p := Try(func() { got = (&j.Filter{Field: "one", Op: op, Val: fv}).IsAllowed(res) })
				x.R.Add("transitions", 1)
				want := false
				switch op {
				case "=":
					want = rv == fv
				case "!=":
					want = rv != fv
				}
				x.R.Mark("nontrivial", mc.Hash(impl, "one", op, rv, fv))
				if p != "" || got != want {
					x.Fail(fmt.Sprintf("C10:rel:%s:to-one:op%s", impl, op), "%s: to-one %q %s %q = %v (panic %q), reference %v", impl, rv, op, fv, got, p, want)
				}
			}
		}
	}
	// to-many
	for _, op := range []string{"=", "!=", "<", "<=", ">", ">=", "has", "~unknown"} {
		for _, rl := range lists {
			if op == "has" {
				for _, id := range ids {
					res := d.NewRes(soft)
					res.Set("many", c10CloneList(rl))
					var got bool
					p := Try(func() { got = (&j.Filter{Field: "many", Op: "has", Val: id}).IsAllowed(res) })
					x.R.Add("transitions", 1)
					want := asSet(rl)[id]
					x.R.Mark("nontrivial", mc.Hash(impl, "many-has", id, fmt.Sprint(rl)))
					if p != "" || got != want {
						x.Fail(fmt.Sprintf("C10:rel:%s:to-many:has", impl), "%s: %v has %q = %v (panic %q), reference %v", impl, rl, id, got, p, want)
					}
				}
				continue
			}
			for _, fl := range lists {
				res := d.NewRes(soft)
				res.Set("many", c10CloneList(rl))
				var got bool
				p := Try(func() {
					got = (&j.Filter{Field: "many", Op: op, Val: c10CloneList(fl)}).IsAllowed(res)
				})
				x.R.Add("transitions", 1)
				same := reflect.DeepEqual(asSet(rl), asSet(fl))
				want := false
				switch op {
				case "=":
					want = same
				case "!=":
					want = !same
				}
				x.R.Mark("nontrivial", mc.Hash(impl, "many", op, fmt.Sprint(rl), fmt.Sprint(fl)))
				if p != "" || got != want {
					x.Fail(fmt.Sprintf("C10:rel:%s:to-many:op%s", impl, op), "%s: to-many %v %s %v = %v (panic %q), reference %v", impl, rl, op, fl, got, p, want)
				}
			}
		}
	}
}

// c10Reuse: a Filter value is reused with another filter value (assigned, or
// edited in place) and on another resource; every verdict must equal the one
// of a fresh Filter (a filter that memoises anything about its value or about
// the resource would differ).
func c10Reuse(x *mc.Exec) {
	soft := x.Choose(2, "impl") == 0
	impl := implName(soft)
	d := TypeD{Name: "t", Attrs: []AttrD{{"a", kStr}}, Rels: []RelD{{"one", true, "t", ""}, {"many", false, "t", ""}}}
	lists := [][]string{{"a", "b"}, {"b", "a"}, {"a", "c"}, {"c", "d"}, {"a"}, {"b"}, {}}
	ops := []string{"=", "!="}
	op := ops[x.Choose(len(ops), "op")]
	r1 := lists[x.Choose(len(lists), "resource list 1")]
	r2 := lists[x.Choose(len(lists), "resource list 2")]
	fresh := func(rl, fl []string) bool {
		res := d.NewRes(soft)
		res.Set("many", append([]string{}, rl...))
		return (&j.Filter{Field: "many", Op: op, Val: append([]string{}, fl...)}).IsAllowed(res)
	}
	f := &j.Filter{Field: "many", Op: op}
	desc := fmt.Sprintf("%s op %s resources %v,%v:", impl, op, r1, r2)
	for step := 0; step < 3; step++ {
		fl := lists[x.Choose(len(lists), "filter list")]
		inPlace := x.Bool("edit in place")
		if cur, ok := f.Val.([]string); ok && inPlace && len(cur) == len(fl) {
			copy(cur, fl)
		} else {
			f.Val = append([]string{}, fl...)
		}
		rl := r1
		if step%2 == 1 {
			rl = r2
		}
		res := d.NewRes(soft)
		res.Set("many", append([]string{}, rl...))
		var got bool
		p := Try(func() { got = f.IsAllowed(res) })
		want := fresh(rl, fl)
		x.R.Add("transitions", 2)
		desc += fmt.Sprintf(" %v on %v;", fl, rl)
		if p != "" || got != want {
			x.Fail("C10:reuse:"+impl, "%s the reused filter answers %v (panic %q), a fresh filter answers %v", desc, got, p, want)
			return
		}
	}
	x.Render(desc)
	x.R.Mark("nontrivial", mc.Hash(desc))
	x.R.Sample("reuse", desc)
}

// c10Tree enumerates every and/or tree within (depth, fan-out) over two leaves
// of known truth value and compares IsAllowed with the tree read as logic.
// c10Large: beyond any small-input fast path: id lists of 15..100 entries in
// sorted, reversed and scrambled order for 'in', 'has' and to-many '='; and/or
// chains nested 1..40 deep above a true or a false leaf.
func c10Large(x *mc.Exec) {
	soft := x.Bool("soft")
	impl := implName(soft)
	d := TypeD{Name: "t", Attrs: []AttrD{{"a", kStr}}, Rels: []RelD{{"one", true, "t", ""}, {"many", false, "t", ""}}}
	if x.Bool("deep tree") {
		depths := []int{1, 2, 3, 7, 8, 9, 11, 12, 13, 14, 15, 16, 17, 31, 32, 33, 40}
		n := depths[x.Choose(len(depths), "depth")]
		leafTrue := x.Bool("leaf holds")
		shape := x.Choose(3, "shape")
		res := d.NewRes(soft)
		res.Set("a", "x")
		op := "="
		if !leafTrue {
			op = "!="
		}
		f := &j.Filter{Field: "a", Op: op, Val: "x"}
		want := leafTrue
		for i := 0; i < n; i++ {
			var node string
			switch shape {
			case 0:
				node = "and"
			case 1:
				node = "or"
			default:
				node = []string{"and", "or"}[i%2]
			}
			if node == "and" {
				// the other branch holds: the verdict is the nested one's
				f = &j.Filter{Op: "and", Val: []*j.Filter{{Field: "a", Op: "=", Val: "x"}, f}}
			} else {
				f = &j.Filter{Op: "or", Val: []*j.Filter{{Field: "a", Op: "!=", Val: "x"}, f}}
			}
		}
		var got bool
		p := Try(func() { got = f.IsAllowed(res) })
		x.R.Add("transitions", 1)
		x.R.Mark("nontrivial", mc.Hash("deep", n, leafTrue, shape, soft))
		x.Render(fmt.Sprintf("%s: %d nested %s nodes above a leaf that is %v", impl, n, []string{"and", "or", "alternating"}[shape], leafTrue))
		if p != "" || got != want {
			x.Fail("C10:large:deep-tree", "%s: %d nested %s nodes above a leaf that is %v evaluate to %v (panic %q)", impl, n, []string{"and", "or", "alternating and/or"}[shape], leafTrue, got, p)
		}
		return
	}
	// group operators are exactly "and" / "or": any other spelling is an unknown operator
	for _, op := range []string{"AND", "Or", " and", "or ", "aNd", "OR", "and\n", "&&", "||"} {
		res := d.NewRes(soft)
		res.Set("a", "x")
		holds := &j.Filter{Field: "a", Op: "=", Val: "x"}
		for _, kids := range [][]*j.Filter{{}, {holds}, {holds, holds}} {
			var got bool
			p := Try(func() { got = (&j.Filter{Op: op, Val: kids}).IsAllowed(res) })
			x.R.Add("transitions", 1)
			if p != "" || got {
				x.Fail("C10:large:unknown-group-operator", "%s: operator %q over %d children that hold allows the resource (panic %q): an unknown operator allows nothing", impl, op, len(kids), p)
			}
		}
	}
	sizes := []int{15, 16, 17, 18, 31, 32, 33, 64, 65, 100}
	n := sizes[x.Choose(len(sizes), "list size")]
	order := x.Choose(3, "order")
	ids := make([]string, n)
	for i := range ids {
		k := i
		switch order {
		case 1:
			k = n - 1 - i
		case 2:
			k = (i*37 + 11) % n // n is never a multiple of 37: a permutation
		}
		ids[i] = fmt.Sprintf("id%03d", k)
	}
	x.Render(fmt.Sprintf("%s: lists of %d ids, order %d", impl, n, order))
	clone := func() []string { return append([]string{}, ids...) }
	probes := append(clone(), "id", "id999", "", "id0000")
	for _, pr := range probes {
		want := false
		for _, id := range ids {
			want = want || id == pr
		}
		res := d.NewRes(soft)
		res.Set("one", pr)
		res.Set("many", clone())
		var in, has bool
		p := Try(func() {
			in = (&j.Filter{Field: "one", Op: "in", Val: clone()}).IsAllowed(res)
			has = (&j.Filter{Field: "many", Op: "has", Val: pr}).IsAllowed(res)
		})
		x.R.Add("transitions", 2)
		if p != "" || in != want {
			x.Fail("C10:large:in", "%s: %q in a list of %d ids (order %d) = %v (panic %q), reference %v", impl, pr, n, order, in, p, want)
		}
		if p != "" || has != want {
			x.Fail("C10:large:has", "%s: to-many of %d ids (order %d) has %q = %v (panic %q), reference %v", impl, n, order, pr, has, p, want)
		}
	}
	// to-many '=' / '!=' against the same set in another order, and against a set differing in one id
	res := d.NewRes(soft)
	res.Set("many", clone())
	rev := clone()
	for i, k := 0, len(rev)-1; i < k; i, k = i+1, k-1 {
		rev[i], rev[k] = rev[k], rev[i]
	}
	other := clone()
	other[n/2] = "zzz"
	var eq, ne, eqOther bool
	p := Try(func() {
		eq = (&j.Filter{Field: "many", Op: "=", Val: rev}).IsAllowed(res)
		ne = (&j.Filter{Field: "many", Op: "!=", Val: append([]string{}, rev...)}).IsAllowed(res)
		eqOther = (&j.Filter{Field: "many", Op: "=", Val: other}).IsAllowed(res)
	})
	x.R.Add("transitions", 3)
	x.R.Mark("nontrivial", mc.Hash("lists", n, order, soft))
	if p != "" || !eq || ne || eqOther {
		x.Fail("C10:large:to-many-eq", "%s: to-many of %d ids (order %d): = same set %v, != same set %v, = set differing in one id %v (panic %q)", impl, n, order, eq, ne, eqOther, p)
	}
}

func c10Tree(x *mc.Exec) {
	depth, fan := 2, 2
	if Thorough() {
		depth, fan = 2, 3
	}
	soft := x.Choose(2, "impl") == 0
	d := TypeD{Name: "t", Attrs: []AttrD{{"a", Kind{j.AttrTypeString, false}}}}
	res := d.NewRes(soft)
	res.Set("a", "x")
	var build func(dep int) (*j.Filter, bool, string)
	build = func(dep int) (*j.Filter, bool, string) {
		n := 4
		if dep == 0 {
			n = 2
		}
		switch x.Choose(n, "node") {
		case 0:
			return &j.Filter{Field: "a", Op: "=", Val: "x"}, true, "T"
		case 1:
			return &j.Filter{Field: "a", Op: "!=", Val: "x"}, false, "F"
		case 2:
			k := x.Choose(fan+1, "fanout")
			kids := []*j.Filter{}
			all := true
			s := "and("
			for i := 0; i < k; i++ {
				f, v, str := build(dep - 1)
				kids = append(kids, f)
				all = all && v
				s += str
			}
			return &j.Filter{Op: "and", Val: kids}, all, s + ")"
		default:
			k := x.Choose(fan+1, "fanout")
			kids := []*j.Filter{}
			some := false
			s := "or("
			for i := 0; i < k; i++ {
				f, v, str := build(dep - 1)
				kids = append(kids, f)
				some = some || v
				s += str
			}
			return &j.Filter{Op: "or", Val: kids}, some, s + ")"
		}
	}
	f, want, str := build(depth)
	var got bool
	p := Try(func() { got = f.IsAllowed(res) })
	x.R.Add("transitions", 1)
	x.Observe(str, got)
	x.Render(str)
	if len(str) > 1 {
		x.R.Mark("nontrivial", mc.Hash(str, soft))
	}
	x.R.Sample("tree", str)
	if p != "" {
		x.Fail("C10:tree:panic", "IsAllowed panicked on %s: %s", str, p)
	} else if got != want {
		x.Fail("C10:tree:verdict", "tree %s evaluates to %v, logic says %v", str, got, want)
	}
}

func init() {
	Register(&Prop{
		ID: "C10",
		Rule: "Engine A, all choices Full: (28 kinds x {soft,wrapped} x 11 operators (6 known, 5 unknown incl. known ones padded or in another letter case) x all ordered pairs + every value compared with the very object the resource holds of the kind's boundary alphabet incl. nil) + relationship leaves (to-one =,!=,in; to-many =,!=,has,order ops over 10 lists incl. nil on either side) + every and/or tree of depth<=2 and fan-out<=2 (thorough: fan-out<=3) over a true and a false leaf + id lists of 15..100 entries (sorted, reversed, scrambled) for in / has / to-many = and != + and/or chains nested 1..40 deep above a true or a false leaf; " +
			"+ one Filter value reused over 3 steps with its value reassigned or edited in place (all sequences over 7 ID lists), compared with fresh filters; oracle = independent evaluator (math/big, bytes.Compare, time.Before) plus trichotomy/complement/<= laws; a leaf case is non-trivial when the two values differ or one is nil, a tree when it has at least one operator node",
		Assumptions: []string{"well-typed filters only: the filter value has the Go type of the attribute (pointer, possibly typed nil, for nullable kinds)", "ordering of to-one IDs is not judged (statement silent)"},
		Harnesses: []Harness{
			{Name: "C10/leaf", Body: c10Leaf, ShardDepth: 1},
			{Name: "C10/rel", Body: c10Rel},
			{Name: "C10/tree", Body: c10Tree},
			{Name: "C10/reuse", Body: c10Reuse},
			{Name: "C10/large", Body: c10Large},
		},
	})
}
