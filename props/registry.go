// Package props holds one harness file per property (cNN.go) plus the shared
// generators and reference models.
package props

import (
	"sort"

	"verif/mc"
)

// Tier is "quick" or "thorough"; set by the runner before any harness runs.
var Tier = "quick"

// Thorough reports whether the thorough tier is running.
func Thorough() bool { return Tier == "thorough" }

// Harness is one exploration unit of a property.
type Harness struct {
	Name string
	// Body is an Engine A body: a deterministic function of its choices.
	Body func(x *mc.Exec)
	// Dev returns the deviation bound for the tier (nil = 0).
	Dev func() int
	// Reset runs before every execution of Body.
	Reset func(x *mc.Exec)
	// Custom is an Engine B / C harness. It runs in shard 0 only (and
	// parallelises in-process) unless Sharded is set.
	Custom  func(c *Ctx)
	Sharded bool
	// ReplayCustom re-executes one recorded case of a Custom harness.
	ReplayCustom func(c *Ctx, choices []int) []mc.Violation
	// OnlyTier restricts the harness to one tier ("" = both).
	OnlyTier string
	// ShardDepth: number of leading choices that decide the owning shard (0 = 2).
	ShardDepth int
}

// Ctx is what a Custom harness gets.
type Ctx struct {
	R       *mc.Run
	Shard   int
	NShards int
	Workers int
	Stub    bool
}

// Prop describes the check of one property.
type Prop struct {
	ID          string
	Rule        string // how cases are enumerated / what makes one non-trivial
	Assumptions []string
	Harnesses   []Harness
	// Race runs in the parent after the shards (C12: the free-running -race pass).
	Race func(c *Ctx)
	// Post runs in the parent after the shards (C11: conformance of the
	// instrumented build against the repository's own suite).
	Post func(c *Ctx)
}

var registry = map[string]*Prop{}

func Register(p *Prop) { registry[p.ID] = p }

func Get(id string) *Prop { return registry[id] }

func IDs() []string {
	var ids []string
	for id := range registry {
		ids = append(ids, id)
	}
	sort.Strings(ids)
	return ids
}

func (p *Prop) Harness(name string) *Harness {
	for i := range p.Harnesses {
		if p.Harnesses[i].Name == name {
			return &p.Harnesses[i]
		}
	}
	return nil
}
