package props

import (
	"bytes"
	"encoding/json"
	"fmt"
	"net/http"
	"net/http/httptest"
	"reflect"
	"sort"
	"strings"

	j "github.com/mfcochauxlaberge/jsonapi"

	"verif/mc"
)

// C05 — unmarshaling arbitrary bytes never panics nor yields off-schema data.

func c05TypeD() TypeD {
	d := TypeD{Name: "t"}
	for i, k := range AllKinds() {
		d.Attrs = append(d.Attrs, AttrD{fmt.Sprintf("a%02d", i), k})
	}
	d.Rels = []RelD{{"one", true, "u", ""}, {"many", false, "u", ""}}
	return d
}

var c05Schemas = map[bool]*j.Schema{}

func c05Schema(soft bool) *j.Schema {
	// built once per process: the schema is only read (C12) and struct types are cached anyway
	if s, ok := c05Schemas[soft]; ok {
		return s
	}
	// another program version's struct for the same type names, with another layout, was in use
	// earlier in this process (its own schema): nothing about it may stick to the type NAME
	_ = BuildSchema([]TypeD{{Name: "t", Attrs: []AttrD{{"zz", kStr}, {"a00", kInt}}, Rels: []RelD{{"one", false, "u", ""}}}, {Name: "u", Attrs: []AttrD{{"b", kStr}, {"q", kBool}}}}, []bool{false, false})
	s := BuildSchema([]TypeD{c05TypeD(), {Name: "u", Attrs: []AttrD{{"b", kBool}}}}, []bool{soft, !soft})
	// a struct-backed type whose json tags carry options (legal for encoding/json; the
	// library takes the whole tag as the field name)
	opts := reflect.StructOf([]reflect.StructField{
		{Name: "ID", Type: reflect.TypeOf(""), Tag: `json:"id" api:"opts"`},
		{Name: "Name", Type: reflect.TypeOf(""), Tag: `json:"name,omitempty" api:"attr"`},
		{Name: "Count", Type: reflect.TypeOf((*int)(nil)), Tag: `json:"count,string" api:"attr"`},
		{Name: "Owner", Type: reflect.TypeOf(""), Tag: `json:"owner,omitempty" api:"rel,u"`},
		{Name: "Tags", Type: reflect.TypeOf([]string{}), Tag: `json:"tags,omitempty" api:"rel,u"`},
	})
	if t, err := j.BuildType(reflect.New(opts).Interface()); err == nil {
		_ = s.AddType(t)
	}
	c05Schemas[soft] = s
	return s
}

var c05Entries = []string{"UnmarshalDocument", "UnmarshalResource", "UnmarshalPartialResource", "UnmarshalCollection", "UnmarshalIdentifier", "UnmarshalIdentifiers", "NewRequest-POST", "NewRequest-PATCH", "NewRequest-GET"}

// the harness's own reading of the schema (exact names), not the library's lookups
func c05TypeNamed(schema *j.Schema, name string) j.Type {
	for _, t := range schema.Types {
		if t.Name == name {
			return t
		}
	}
	return j.Type{}
}

func c05Declares(schema *j.Schema, name string) bool { return name != "" && c05TypeNamed(schema, name).Name == name }

// conform checks that a resource only holds on-schema data.
func conform(schema *j.Schema, r j.Resource) string {
	if r == nil {
		return "nil resource in result"
	}
	name := r.GetType().Name
	st := c05TypeNamed(schema, name)
	if name == "" || st.Name == "" {
		return fmt.Sprintf("resource of type %q, which is not in the schema", name)
	}
	for n, a := range r.Attrs() {
		sa, ok := st.Attrs[n]
		if !ok || sa != a {
			return fmt.Sprintf("attribute %q (%+v) is not the schema's (%+v)", n, a, sa)
		}
		v := r.Get(n)
		k := Kind{a.Type, a.Nullable}
		if IsNilVal(v) {
			if !a.Nullable {
				return fmt.Sprintf("non-nullable attribute %q holds nil", n)
			}
			if v != nil && reflect.TypeOf(v) != k.GoType() {
				return fmt.Sprintf("attribute %q holds a nil of type %T, declared %s", n, v, k)
			}
			continue
		}
		if reflect.TypeOf(v) != k.GoType() {
			return fmt.Sprintf("attribute %q holds a %T, the schema declares %s", n, v, k)
		}
	}
	for n, rel := range r.Rels() {
		if _, ok := st.Rels[n]; !ok {
			return fmt.Sprintf("relationship %q is not in the schema", n)
		}
		v := r.Get(n)
		if rel.ToOne {
			if _, ok := v.(string); !ok {
				return fmt.Sprintf("to-one %q holds a %T", n, v)
			}
		} else if _, ok := v.([]string); !ok {
			return fmt.Sprintf("to-many %q holds a %T", n, v)
		}
	}
	if _, ok := r.Get("id").(string); !ok {
		return "id is not a string"
	}
	return ""
}

func conformDoc(schema *j.Schema, d *j.Document) string {
	if d == nil {
		return "nil document"
	}
	switch v := d.Data.(type) {
	case nil:
	case j.Resource:
		if m := conform(schema, v); m != "" {
			return "data: " + m
		}
	case j.Collection:
		for i := 0; i < v.Len(); i++ {
			if m := conform(schema, v.At(i)); m != "" {
				return fmt.Sprintf("data[%d]: %s", i, m)
			}
		}
	default:
		return fmt.Sprintf("data of unexpected Go type %T", v)
	}
	for i, r := range d.Included {
		if m := conform(schema, r); m != "" {
			return fmt.Sprintf("included[%d]: %s", i, m)
		}
	}
	return ""
}

// c05Call feeds payload to one entry point and judges the outcome.
// It returns an observation string for the outcome hash.
func c05Call(x *mc.Exec, schema *j.Schema, entry string, payload []byte, gen string) string {
	var (
		err     error
		present bool   // a result was returned
		bad     string // off-schema complaint
	)
	msg, site := TrySite(func() {
		switch entry {
		case "UnmarshalDocument":
			var d *j.Document
			d, err = j.UnmarshalDocument(payload, schema)
			present = d != nil
			if err == nil && d != nil {
				bad = conformDoc(schema, d)
			}
		case "UnmarshalResource":
			var r j.Resource
			r, err = j.UnmarshalResource(payload, schema)
			present = r != nil
			if err == nil && present {
				bad = conform(schema, r)
			}
		case "UnmarshalPartialResource":
			var r *j.SoftResource
			r, err = j.UnmarshalPartialResource(payload, schema)
			present = r != nil
			if err == nil && present {
				bad = conform(schema, r)
			}
		case "UnmarshalCollection":
			var c j.Collection
			c, err = j.UnmarshalCollection(payload, schema)
			// `col != nil` is what a caller tests: a typed nil pointer wrapped in
			// the interface counts as a result (and panics when used)
			present = c != nil
			if err == nil && present {
				for i := 0; i < c.Len() && bad == ""; i++ {
					bad = conform(schema, c.At(i))
				}
			}
		case "UnmarshalIdentifier":
			var id j.Identifier
			id, err = j.UnmarshalIdentifier(payload, schema)
			present = id != (j.Identifier{})
			if err == nil && !c05Declares(schema, id.Type) {
				bad = fmt.Sprintf("identifier of type %q, not in the schema", id.Type)
			}
		case "UnmarshalIdentifiers":
			var ids j.Identifiers
			ids, err = j.UnmarshalIdentifiers(payload, schema)
			present = err == nil && ids != nil || len(ids) > 0
			for _, id := range ids {
				if err == nil && !c05Declares(schema, id.Type) {
					bad = fmt.Sprintf("identifier of type %q, not in the schema", id.Type)
				}
			}
		default:
			method := strings.TrimPrefix(entry, "NewRequest-")
			hr := httptest.NewRequest(method, "/t/x1", bytes.NewReader(payload))
			var rq *j.Request
			rq, err = j.NewRequest(hr, schema)
			present = rq != nil
			if err == nil && rq != nil && method != http.MethodGet {
				bad = conformDoc(schema, rq.Doc)
			}
		}
	})
	x.R.Add("transitions", 1)
	switch {
	case msg != "":
		x.Fail(fmt.Sprintf("C05:panic:%s:%s", site, Slug2(msg)), "%s(%s) panicked in %s: %s  [generator %s]", entry, showPayload(payload), site, msg, gen)
		return "panic"
	case err != nil && present:
		x.Fail("C05:error-and-result:"+entry, "%s(%s) returned both an error (%v) and a result [generator %s]", entry, showPayload(payload), err, gen)
	case err == nil && !present:
		x.Fail("C05:neither-error-nor-result:"+entry, "%s(%s) returned neither an error nor a result [generator %s]", entry, showPayload(payload), gen)
	case bad != "":
		what := "off-schema"
		if strings.Contains(bad, "not in the schema") && strings.Contains(bad, "type") {
			what = "unknown-type"
		}
		x.Fail("C05:"+what+":"+entry, "%s(%s) accepted off-schema data: %s [generator %s]", entry, showPayload(payload), bad, gen)
	}
	if err != nil {
		return "err"
	}
	return "ok"
}

func showPayload(p []byte) string {
	if len(p) > 300 {
		return fmt.Sprintf("%q...(%d bytes)", p[:300], len(p))
	}
	return fmt.Sprintf("%q", p)
}

// (a) all byte strings up to a length over a 13-byte alphabet
var c05Alphabet = []byte{'{', '}', '[', ']', '"', ':', ',', '\\', 'n', '1', 'a', ' ', 0xFF}

func c05Bytes(x *mc.Exec) {
	maxLen := 4
	if Thorough() {
		maxLen = 6
	}
	n := len(c05Alphabet)
	// first two symbols chosen by the explorer (sharding), the rest enumerated in the body
	first := x.Choose(n+1, "first symbol") // n = empty string
	soft := x.Choose(2, "schema") == 0
	schema := c05Schema(soft)
	if first == n {
		for _, e := range c05Entries {
			c05Call(x, schema, e, []byte{}, "bytes")
		}
		return
	}
	second := x.Choose(n+1, "second symbol")
	prefix := []byte{c05Alphabet[first]}
	if second < n {
		prefix = append(prefix, c05Alphabet[second])
	}
	var rec func(cur []byte)
	count, okCount := 0, 0
	rec = func(cur []byte) {
		count++
		for _, e := range c05Entries {
			if c05Call(x, schema, e, cur, "bytes") == "ok" {
				okCount++
				x.R.Mark("nontrivial", mc.Hash(e, string(cur)))
			}
		}
		if len(cur) >= maxLen || second == n {
			return
		}
		for _, b := range c05Alphabet {
			rec(append(append([]byte{}, cur...), b))
		}
	}
	rec(prefix)
	x.Observe(string(prefix), count, okCount)
	x.R.Add("byte_strings", int64(count))
	x.R.Sample("bytes", fmt.Sprintf("all strings starting with %q up to length %d (%d strings, %d accepted calls)", prefix, maxLen, count, okCount))
}

// base payloads as Go trees -------------------------------------------------------

func c05Bases() map[string]any {
	res := func(id string) map[string]any {
		return map[string]any{
			"type": "t", "id": id,
			"attributes": map[string]any{"a00": "str", "a01": 5.0, "a07": 200.0, "a11": true, "a12": "2020-01-02T03:04:05Z", "a13": "AQI=", "a14": nil, "a26": "2020-01-02T03:04:05Z", "a27": "AQI="},
			"relationships": map[string]any{
				"one":  map[string]any{"data": map[string]any{"type": "u", "id": "u1"}, "links": map[string]any{"self": "/x"}},
				"many": map[string]any{"data": []any{map[string]any{"type": "u", "id": "u1"}, map[string]any{"type": "u", "id": "u2"}}, "meta": map[string]any{"k": 1.0}},
			},
			"meta": map[string]any{"m": "v"},
		}
	}
	return map[string]any{
		"resource":    res("x1"),
		"document":    map[string]any{"data": res("x1"), "included": []any{map[string]any{"type": "u", "id": "u1", "attributes": map[string]any{"b": true}}}, "meta": map[string]any{"k": "v"}, "jsonapi": map[string]any{"version": "1.0"}},
		"collection":  []any{res("x1"), map[string]any{"type": "u", "id": "u2"}},
		"coll-doc":    map[string]any{"data": []any{res("x1"), res("x2")}},
		"identifier":  map[string]any{"type": "u", "id": "u1"},
		"identifiers": []any{map[string]any{"type": "u", "id": "u1"}, map[string]any{"type": "t", "id": "x1"}},
		"errors-doc":  map[string]any{"errors": []any{map[string]any{"id": "e", "status": "400", "links": map[string]any{"about": "x"}, "source": map[string]any{"pointer": "/p"}, "meta": map[string]any{"a": 1.0}}}},
		"null-doc":    map[string]any{"data": nil, "meta": map[string]any{}},
	}
}

type jpath []any // string keys and int indexes

func allPaths(v any, cur jpath, out *[]jpath) {
	if len(cur) > 0 {
		*out = append(*out, append(jpath{}, cur...))
	}
	switch v := v.(type) {
	case map[string]any:
		for _, k := range SortedKeys(v) {
			allPaths(v[k], append(cur, k), out)
		}
	case []any:
		for i := range v {
			allPaths(v[i], append(cur, i), out)
		}
	}
}

func deepCopyJSON(v any) any {
	switch v := v.(type) {
	case map[string]any:
		m := map[string]any{}
		for k, e := range v {
			m[k] = deepCopyJSON(e)
		}
		return m
	case []any:
		l := make([]any, len(v))
		for i, e := range v {
			l[i] = deepCopyJSON(e)
		}
		return l
	}
	return v
}

type deleteMarker struct{}

// setPath replaces the node at p (deleteMarker{} removes a map key); ok=false
// if the path no longer exists.
func setPath(root any, p jpath, val any) (any, bool) {
	if len(p) == 0 {
		return val, true
	}
	switch c := root.(type) {
	case map[string]any:
		k, ok := p[0].(string)
		if !ok {
			return root, false
		}
		child, exists := c[k]
		if !exists {
			return root, false
		}
		if len(p) == 1 {
			if _, del := val.(deleteMarker); del {
				delete(c, k)
				return root, true
			}
		}
		nv, ok := setPath(child, p[1:], val)
		if !ok {
			return root, false
		}
		c[k] = nv
		return root, true
	case []any:
		i, ok := p[0].(int)
		if !ok || i >= len(c) {
			return root, false
		}
		if len(p) == 1 {
			if _, del := val.(deleteMarker); del {
				return root, false
			}
		}
		nv, ok := setPath(c[i], p[1:], val)
		if !ok {
			return root, false
		}
		c[i] = nv
		return root, true
	}
	return root, false
}

var c05Replacements = []any{1.0, -1.5, "x", "", true, nil, []any{}, map[string]any{}, []any{[]any{1.0}}, map[string]any{"a": map[string]any{}}, "nope", 1e30, []any{nil}, deleteMarker{},
	// long values (refusals echo the offending value): multi-byte runes and plain ASCII
	strings.Repeat("\u00e9", 40), strings.Repeat("x", 300)}

func c05EntriesFor(base string) []string {
	switch base {
	case "resource":
		return []string{"UnmarshalResource", "UnmarshalPartialResource", "UnmarshalDocument"}
	case "document", "coll-doc", "errors-doc", "null-doc":
		return []string{"UnmarshalDocument", "NewRequest-POST", "NewRequest-PATCH", "NewRequest-GET"}
	case "collection":
		return []string{"UnmarshalCollection", "UnmarshalIdentifiers"}
	case "identifier":
		return []string{"UnmarshalIdentifier", "UnmarshalResource"}
	case "identifiers":
		return []string{"UnmarshalIdentifiers", "UnmarshalCollection"}
	}
	return c05Entries
}

// (c) kind-replacement deviations: every single replacement; every double
// replacement (deviation bound 2) in the thorough tier and for the resource base
func c05Deviations(x *mc.Exec) {
	bases := c05Bases()
	names := SortedKeys(bases)
	name := names[x.Choose(len(names), "base")]
	var paths []jpath
	allPaths(bases[name], nil, &paths)
	p1 := x.Choose(len(paths)+1, "first position") // len = no deviation
	soft := x.Choose(2, "schema") == 0
	schema := c05Schema(soft)
	tree := deepCopyJSON(bases[name])
	desc := name
	devs := 0
	if p1 < len(paths) {
		r1 := x.Choose(len(c05Replacements), "first replacement")
		var ok bool
		tree, ok = setPath(tree, paths[p1], deepCopyJSON(c05Replacements[r1]))
		if !ok {
			return
		}
		devs = 1
		desc += fmt.Sprintf(" %v:=%v", paths[p1], showRepl(c05Replacements[r1]))
		double := Thorough() || name == "resource" || name == "identifiers"
		if double {
			p2 := x.Choose(len(paths)-p1, "second position") // 0 = none, else p1+k
			if p2 > 0 {
				r2 := x.Choose(len(c05Replacements), "second replacement")
				tree, ok = setPath(tree, paths[p1+p2], deepCopyJSON(c05Replacements[r2]))
				if !ok {
					return // the first replacement removed the second position
				}
				devs = 2
				desc += fmt.Sprintf(" %v:=%v", paths[p1+p2], showRepl(c05Replacements[r2]))
			}
		}
	}
	payload, err := json.Marshal(tree)
	if err != nil {
		panic(err)
	}
	x.Render(desc + " => " + string(payload))
	if devs > 0 {
		x.R.Mark("nontrivial", mc.Hash(name, string(payload)))
	}
	x.R.Sample("deviation-"+name, desc)
	obs := ""
	for _, e := range c05EntriesFor(name) {
		obs += c05Call(x, schema, e, payload, "deviation") + ","
	}
	x.Observe(string(payload), obs)
}

func showRepl(v any) string {
	if _, ok := v.(deleteMarker); ok {
		return "<deleted>"
	}
	b, _ := json.Marshal(v)
	return string(b)
}

// (b) truncations, (d) nesting ladder, duplicate keys, unknown members/types, whitespace
func c05Misc(x *mc.Exec) {
	bases := c05Bases()
	names := SortedKeys(bases)
	mode := x.Choose(4, "mode")
	soft := x.Choose(2, "schema") == 0
	schema := c05Schema(soft)
	switch mode {
	case 0: // every prefix of every base payload
		name := names[x.Choose(len(names), "base")]
		full, _ := json.Marshal(bases[name])
		for cut := 0; cut < len(full); cut++ {
			for _, e := range c05EntriesFor(name) {
				c05Call(x, schema, e, full[:cut], "truncation")
			}
		}
		x.R.Add("truncations", int64(len(full)))
		x.R.Sample("truncation", fmt.Sprintf("all %d prefixes of the %s payload", len(full), name))
	case 1: // nesting ladder
		depths := []int{1, 2, 5, 50, 500, 5000, 9999, 10000, 10001, 20000}
		d := depths[x.Choose(len(depths), "depth")]
		arrays := strings.Repeat("[", d) + strings.Repeat("]", d)
		objects := strings.Repeat("{\"a\":", d) + "1" + strings.Repeat("}", d)
		for _, payload := range []string{
			arrays, objects,
			`{"data":` + arrays + `}`,
			`{"data":{"type":"t","id":"x","attributes":{"a00":` + arrays + `}}}`,
			`{"meta":{"m":` + objects + `}}`,
			`{"type":"t","id":"x","relationships":{"one":{"data":` + objects + `}}}`,
		} {
			for _, e := range c05Entries {
				c05Call(x, schema, e, []byte(payload), fmt.Sprintf("nesting %d", d))
			}
		}
		x.R.Mark("nontrivial", mc.Hash("nest", d, soft))
		x.R.Sample("nesting", fmt.Sprintf("depth %d arrays/objects at 5 positions", d))
	case 2: // duplicate keys, unknown members, whitespace, BOM, trailing data
		raws := []string{
			`{"type":"t","type":"u","id":"x"}`, `{"type":"t","id":"a","id":"b"}`,
			`{"type":"t","id":"x","attributes":{"a00":"1","a00":2}}`,
			`{"type":"t","id":"x","attributes":{"a00":"1"},"attributes":{"a01":"zz"}}`,
			`{"type":"t","id":"x","attributes":{"a00":"1"},"attributes":null}`,
			`{"type":"t","id":"x","relationships":{"one":{"data":{"type":"u","id":"1"},"data":5}}}`,
			`{"data":null,"data":{"type":"t","id":"x"}}`, `{"data":{"type":"t","id":"x"},"data":7}`,
			`{"data":{"type":"t","id":"x"},"errors":[{"id":"e"}]}`, `{"errors":[],"data":null}`, `{"errors":null}`, `{"errors":[null]}`, `{"errors":[1]}`,
			`{"data":{"type":"t","id":"x"},"included":[null]}`, `{"data":{"type":"t","id":"x"},"included":[{}]}`, `{"data":{"type":"t","id":"x"},"included":[{"type":"nope","id":"1"}]}`,
			`{"data":{"type":"t","id":"x"},"included":null}`, `{"data":{"type":"t","id":"x"},"included":[[]]}`, `{"data":{"type":"t","id":"x"},"included":[5]}`,
			`{"data":[null]}`, `{"data":[{}]}`, `{"data":[[]]}`, `{"data":[1]}`, `{"data":{}}`, `{"data":""}`, `{"data":0}`, `{"data":false}`, `{"data": null }`, ` {"data" : { "type" : "t" , "id" : "x" } } `,
			`[null]`, `[{}]`, `[[]]`, `[1]`, `[""]`, `[null,{"type":"u","id":"1"}]`, `null`, `"str"`, `1`, `true`, ` `, "\xef\xbb\xbf{}", `{} {}`, `{}x`,
			`{"type":"nope","id":"x"}`, `{"id":"x"}`, `{"type":"","id":"x"}`, `{"type":"t"}`, `{"type":"t","id":""}`, `{"type":"t","id":"x","zzz":1}`,
			`{"type":"t","id":"x","attributes":{"zzz":1}}`, `{"type":"t","id":"x","relationships":{"zzz":{"data":null}}}`, `{"type":"t","id":"x","relationships":{"zzz":{}}}`,
			`{"type":"t","id":"x","relationships":{"one":{"data":{"type":"nope","id":"1"}}}}`, `{"type":"t","id":"x","relationships":{"one":{"data":{"id":"1"}}}}`,
			`{"type":"t","id":"x","relationships":{"one":{"data":[{"type":"u","id":"1"}]}}}`, `{"type":"t","id":"x","relationships":{"many":{"data":{"type":"u","id":"1"}}}}`,
			`{"type":"t","id":"x","relationships":{"many":{"data":[null]}}}`, `{"type":"t","id":"x","relationships":{"many":{"data":[{"type":"u"}]}}}`,
			`{"type":"t","id":"x","relationships":{"many":{"data":null}}}`, `{"type":"t","id":"x","relationships":{"one":{"data":""}}}`, `{"type":"t","id":"x","relationships":{"one":{"data":"null"}}}`,
			`{"type":"t","id":"x","attributes":{"a13":"!!!"}}`, `{"type":"t","id":"x","attributes":{"a13":"AQI"}}`, `{"type":"t","id":"x","attributes":{"a27":"====="}}`, `{"type":"t","id":"x","attributes":{"a13":[1,2,300]}}`, `{"type":"t","id":"x","attributes":{"a13":[1,-2]}}`,
			`{"type":"t","id":"x","attributes":{"a12":"2020-01-02"}}`, `{"type":"t","id":"x","attributes":{"a01":1e400}}`, `{"type":"t","id":"x","attributes":{"a01":99999999999999999999999}}`,
			`{"type":"t","id":"x","attributes":{"a00":"\ud800"}}`, `{"type":"t","id":"x","attributes":{"a00":"` + "\xff" + `"}}`,
			`{"type":"opts","id":"x"}`, `{"data":{"type":"opts","id":"x","attributes":{"name,omitempty":"n","count,string":3}}}`, `{"type":"opts","id":"x","attributes":{"name":"n"}}`,
			`{"type":"opts","id":"x","relationships":{"owner,omitempty":{"data":{"type":"u","id":"1"}},"tags,omitempty":{"data":[{"type":"u","id":"1"}]}}}`,
			`{"data":[{"type":"opts","id":"x","relationships":{"tags,omitempty":{"data":null}}}]}`, `{"type":"opts","id":"x","relationships":{"tags":{"data":[]}}}`,
			// type names that differ from declared ones by letter case only
			`{"type":"T","id":"1"}`, `[{"type":"U","id":"1"},{"type":"u","id":"2"}]`, `{"data":{"type":"T","id":"x"}}`, `{"data":[{"type":"Opts","id":"x"}]}`,
			`{"type":"t","id":"x","relationships":{"one":{"data":{"type":"U","id":"1"}}}}`,
			// the same identifier / member twice
			`[{"type":"u","id":"1"},{"type":"u","id":"1"}]`, `[{"type":"u","id":"1"},{"type":"t","id":"1"},{"type":"u","id":"1"},{"type":"u","id":"1"}]`,
			`{"data":[{"type":"t","id":"x"},{"type":"t","id":"x"}]}`, `{"type":"t","id":"x","relationships":{"many":{"data":[{"type":"u","id":"1"},{"type":"u","id":"1"}]}}}`,
			`{"type":"t","id":"x","meta":5}`, `{"type":"t","id":"x","meta":null}`, `{"type":"t","id":"x","meta":[]}`, `{"type":"t","id":7}`, `{"type":7,"id":"x"}`, `{"type":null,"id":null}`,
		}
		i := x.Choose(len(raws), "raw")
		obs := ""
		for _, e := range c05Entries {
			obs += c05Call(x, schema, e, []byte(raws[i]), "handwritten")
		}
		x.Observe(raws[i], obs)
		x.Render(raws[i])
		x.R.Mark("nontrivial", mc.Hash(raws[i], soft))
		x.R.Sample("handwritten", raws[i])
	case 3: // every attribute kind x every wrong JSON kind, through every resource entry point
		kinds := AllKinds()
		ki := x.Choose(len(kinds), "kind")
		wrong := []string{"1", "-1", "1.5", `"x"`, `""`, "true", "null", "[]", "{}", "[1]", `{"a":1}`, `"2020-01-02T03:04:05Z"`, `"AQI="`, "256", "70000", "1e3"}
		for _, w := range wrong {
			// the attribute decoder directly (valid JSON values only): the kind is
			// known here, so a panic gets a kind-specific signature
			attr := j.Attr{Name: "a", Type: kinds[ki].Type, Nullable: kinds[ki].Nullable}
			var av any
			var aerr error
			if msg, _ := TrySite(func() { av, aerr = attr.UnmarshalToType([]byte(w)) }); msg != "" {
				x.Fail(fmt.Sprintf("C05:attr-panic:%s:%s", kinds[ki], Slug2(msg)), "Attr{%s}.UnmarshalToType(%s) panicked: %s", kinds[ki], w, msg)
			} else if aerr == nil && !IsNilVal(av) && reflect.TypeOf(av) != kinds[ki].GoType() {
				x.Fail(fmt.Sprintf("C05:attr-type:%s", kinds[ki]), "Attr{%s}.UnmarshalToType(%s) returned a %T", kinds[ki], w, av)
			} else if aerr != nil && av != nil {
				x.Fail(fmt.Sprintf("C05:attr-error-and-result:%s", kinds[ki]), "Attr{%s}.UnmarshalToType(%s) returned both %v and %v", kinds[ki], w, av, aerr)
			}
			x.R.Add("transitions", 1)
			payload := fmt.Sprintf(`{"type":"t","id":"x","attributes":{"a%02d":%s}}`, ki, w)
			for _, e := range []string{"UnmarshalResource", "UnmarshalPartialResource", "UnmarshalDocument"} {
				pl := payload
				if e == "UnmarshalDocument" {
					pl = `{"data":` + payload + `}`
				}
				c05Call(x, schema, e, []byte(pl), "kind x wrong-json-kind")
			}
			x.R.Mark("nontrivial", mc.Hash(ki, w, soft))
		}
		x.R.Sample("kind-matrix", fmt.Sprintf("kind %s x %d JSON values", kinds[ki], len(wrong)))
	}
}

// c05AfterEdits: "every resource's type exists in the schema" must also hold
// after the schema was edited: all histories of depth 4 over AddType / RemoveType
// of three names and a lookup probe, then identifiers and resources of each name
// are unmarshaled.
func c05AfterEdits(x *mc.Exec) {
	names := []string{"a", "b", "c"}
	s := &j.Schema{}
	present := map[string]bool{}
	desc := ""
	depth := 4
	if Thorough() {
		depth = 5
	}
	for i := 0; i < depth; i++ {
		op := x.Choose(2*len(names)+1, "edit")
		switch {
		case op < len(names):
			n := names[op]
			err := s.AddType(j.Type{Name: n, Attrs: map[string]j.Attr{"x": {Name: "x", Type: j.AttrTypeString}}, Rels: map[string]j.Rel{}})
			if err == nil {
				present[n] = true
			}
			desc += "AddType(" + n + "); "
		case op < 2*len(names):
			n := names[op-len(names)]
			s.RemoveType(n)
			delete(present, n)
			desc += "RemoveType(" + n + "); "
		default:
			for _, n := range names {
				_ = s.HasType(n)
				_ = s.GetType(n)
			}
			desc += "lookups; "
		}
	}
	x.Render(desc)
	x.R.Sample("after-edits", desc)
	x.R.Mark("nontrivial", mc.Hash(desc))
	for _, n := range names {
		idPayload := []byte(fmt.Sprintf(`{"type":%q,"id":"1"}`, n))
		var id j.Identifier
		var err error
		if p := Try(func() { id, err = j.UnmarshalIdentifier(idPayload, s) }); p != "" {
			x.Fail("C05:after-edits:panic", "after [%s] UnmarshalIdentifier(%s) panicked: %s", desc, idPayload, p)
			continue
		}
		x.R.Add("transitions", 1)
		if (err == nil) != present[n] {
			x.Fail("C05:after-edits:identifier-type", "after [%s] UnmarshalIdentifier(%s) returned (%+v, %v) but type %q present=%v", desc, idPayload, id, err, n, present[n])
		}
		resPayload := []byte(fmt.Sprintf(`{"type":%q,"id":"1","attributes":{"x":"v"}}`, n))
		for _, entry := range []string{"UnmarshalResource", "UnmarshalPartialResource", "UnmarshalDocument"} {
			var r j.Resource
			pl := resPayload
			if p := Try(func() {
				switch entry {
				case "UnmarshalResource":
					r, err = j.UnmarshalResource(pl, s)
				case "UnmarshalPartialResource":
					var sr *j.SoftResource
					sr, err = j.UnmarshalPartialResource(pl, s)
					if sr != nil {
						r = sr
					}
				default:
					var d *j.Document
					d, err = j.UnmarshalDocument([]byte(`{"data":`+string(pl)+`}`), s)
					if d != nil {
						r, _ = d.Data.(j.Resource)
					}
				}
			}); p != "" {
				x.Fail("C05:after-edits:panic", "after [%s] %s(%s) panicked: %s", desc, entry, pl, p)
				continue
			}
			x.R.Add("transitions", 1)
			switch {
			case (err == nil) != present[n]:
				x.Fail("C05:after-edits:resource-type", "after [%s] %s(%s) error=%v but type %q present=%v", desc, entry, pl, err, n, present[n])
			case err == nil && (r == nil || r.GetType().Name != n || r.Get("x") != "v"):
				x.Fail("C05:after-edits:resource-content", "after [%s] %s(%s) returned a resource of type %q", desc, entry, pl, r.GetType().Name)
			}
		}
	}
}

func init() {
	_ = sort.Strings
	Register(&Prop{
		ID: "C05",
		Rule: "Engine A, all choices Full. Four generators, each exhaustive within its bound, against a soft and a struct-backed schema holding all 28 kinds and 9 entry points (UnmarshalDocument/Resource/PartialResource/Collection/Identifier/Identifiers, NewRequest with POST/PATCH/GET): (a) ALL byte strings of length <= 4 (thorough 6) over the 13-symbol alphabet { } [ ] \" : , \\ n 1 a space 0xFF; (b) every truncation point of 8 valid base payloads; (c) in every base payload every value position replaced by each of 16 deviations (wrong JSON kinds, nested values, huge number, unknown type, deletion, an 80-byte string of 40 multi-byte runes, a 300-byte string): all single replacements, all double replacements for the resource/identifiers bases (all bases in thorough); (d) nesting ladder 1..20000 at 5 positions; plus ~100 hand-written payloads (a struct type whose json tags carry options, duplicate keys, included:[null], unknown/missing types, non-canonical values) and the full 28 kinds x 16 JSON values matrix. plus every history of 4 (thorough 5) AddType/RemoveType/lookup steps over three type names followed by unmarshaling an identifier and a resource of each name. Oracle: no panic; exactly one of (result, error); every returned resource's type is in the schema, every attribute holds exactly the declared Go type (or nil for nullable), to-one string, to-many []string. Non-trivial = a payload accepted by some entry point, or a deviating/hand-written payload",
		Harnesses: []Harness{
			{Name: "C05/bytes", Body: c05Bytes, ShardDepth: 2},
			{Name: "C05/deviations", Body: c05Deviations},
			{Name: "C05/misc", Body: c05Misc},
			{Name: "C05/after-edits", Body: c05AfterEdits},
		},
	})
}
