package props

import (
	"fmt"
	"strings"

	j "github.com/mfcochauxlaberge/jsonapi"

	"verif/mc"
)

// Shared URL space of C07 and C08.

var urlTypes = []TypeD{
	{Name: "a", Attrs: []AttrD{{"x", kStr}, {"y", kInt}, {"yx", kStr}}, Rels: []RelD{{"r", true, "b", ""}, {"rr", false, "b", ""}, {"ab", false, "a", ""}}},
	// b repeats relationship names of a with the other cardinality
	{Name: "b", Attrs: []AttrD{{"x", kStr}}, Rels: []RelD{{"s", true, "c", ""}, {"rr", true, "c", ""}, {"r", false, "a", ""}}},
	{Name: "c", Attrs: []AttrD{{"z", kStr}}, Rels: []RelD{{"t", false, "a", ""}}},
	{Name: "one", Attrs: []AttrD{{"only", kStr}}},
	{Name: "none"},
	{Name: "self", Rels: []RelD{{"me", false, "self", ""}}},
	// field names that differ by case only
	{Name: "cs", Attrs: []AttrD{{"n", kStr}, {"N", kStr}, {"Nn", kInt}}},
	// type names that are legal member names but not plain ASCII words
	{Name: "caf\u00e9", Attrs: []AttrD{{"n", kStr}, {"m", kStr}}},
	{Name: "my type", Attrs: []AttrD{{"n", kStr}}},
}

var urlSchemas = map[bool]*j.Schema{}

func urlSchema(soft bool) *j.Schema {
	if s, ok := urlSchemas[soft]; ok {
		return s
	}
	flags := make([]bool, len(urlTypes))
	for i := range flags {
		flags[i] = soft
	}
	s := BuildSchema(urlTypes, flags)
	urlSchemas[soft] = s
	return s
}

func urlTypeD(name string) *TypeD {
	for i := range urlTypes {
		if urlTypes[i].Name == name {
			return &urlTypes[i]
		}
	}
	return nil
}

func (d *TypeD) rel(name string) *RelD {
	if d == nil {
		return nil
	}
	for i := range d.Rels {
		if d.Rels[i].Name == name {
			return &d.Rels[i]
		}
	}
	return nil
}

func (d *TypeD) hasAttr(name string) bool {
	if d == nil {
		return false
	}
	for _, a := range d.Attrs {
		if a.Name == name {
			return true
		}
	}
	return false
}

func (d *TypeD) fieldNames() []string {
	var fs []string
	for _, a := range d.Attrs {
		fs = append(fs, a.Name)
	}
	for _, r := range d.Rels {
		fs = append(fs, r.Name)
	}
	sortStrings(fs)
	return fs
}

// representative paths crossed with the query menu
var urlPaths = []string{"/a", "/a/1", "/a/1/r", "/a/1/rr", "/a/1/relationships/rr", "/a/1/relationships/r", "/a/1/ab", "/b", "/b/1/s", "/c/1/t", "/one", "/none", "/self", "/self/1/me", "/nope", "", "/cs", "/caf%C3%A9", "/my%20type/1"}

type qParam struct {
	name, val string
}

func urlMenu() []qParam {
	var m []qParam
	add := func(name string, vals ...string) {
		for _, v := range vals {
			m = append(m, qParam{name, v})
		}
	}
	add("fields[a]", "x", "x,y", "y,x", "x,x", "id", "id,x", "zz", "", "r,rr", "x,,y", "ab,r", "id,id", "id,x,id", "x,%20", "%20", "x,+y")
	add("fields[b]", "x", "s,x")
	add("fields[nope]", "x")
	add("fields[one]", "only")
	add("fields[none]", "", "q")
	add("fields[]", "x")
	add("fields[c]", "t")
	add("fields[cs]", "n,N", "N,n", "Nn,n,N")
	// a name that is a field of ANOTHER type only
	add("fields[b]", "y", "y,x")
	add("fields[a]", "s")
	// a type whose name is not plain ASCII
	add("fields[caf%C3%A9]", "n", "n,m")
	add("fields[my%20type]", "n")
	// unknown names that differ from real ones by letter case only
	add("fields[a]", "X", "x,X", "Yx,R")
	add("sort", "X", "-Y,x")
	add("include", "R", "r.S")
	add("sort", "--x", "--id", "---y,x", "-yx", "yx,-x", "x,yx", "x,%20", "+", "-x,%09,y", "%20x", "x, y",
		"x", "-x", "x,x", "x,-x", "x,x,x", "id", "-id", "id,x", "x,id,y", "-", "", "zz", "r", "y,x", ",", "-y,-x", "z", "only")
	add("include", "r.r,rr", "rr.rr", "r.r.r", "r,%20", "%20", "r", "r,rr", "zz", "zz,yy", "zz,yy,r", "r.s", "r.s.t", "r,r.s", "r.zz", "ab.ab", "ab.r.s", "me", "r.s,rr.s", "", "rr,r", "r,ab", "ab", "rr.s,rr", "r.,r", "s", "t.r", "me.me.me",
		"r,r.s,r.s.t", "r.s.t,r,r.s", "r,r,r", "ab,ab.ab,ab.ab.ab,ab.ab", "r,r.s,rr,rr.s,r.s.t")
	add("page[size]", "1", "-1", "a", "a%26b", "", "10")
	add("page[number]", "2", "0")
	add("page[foo]", "bar")
	add("page[]", "1")
	add("filter", "label", "", "%7B", `%7B%22f%22%3A%22x%22%2C%22o%22%3A%22%3D%22%2C%22v%22%3A%22a%22%7D`,
		`%7B%22o%22%3A%22and%22%2C%22v%22%3A%5B%7B%22f%22%3A%22x%22%2C%22o%22%3A%22%3D%22%2C%22v%22%3A%22a%22%7D%2C%7B%22o%22%3A%22or%22%2C%22v%22%3A%5B%5D%7D%5D%7D`,
		`%7B%22o%22%3A%22and%22%2C%22v%22%3A5%7D`, "lab%22el", "%5B1%5D", "a%20b", "a%26b",
		// operators in other letter cases are ordinary (unknown) operators, not and/or
		`%7B%22o%22%3A%22AND%22%2C%22v%22%3A%5B%7B%22f%22%3A%22x%22%2C%22o%22%3A%22%3D%22%2C%22v%22%3A%22a%22%7D%5D%7D`, `%7B%22o%22%3A%22Or%22%2C%22v%22%3A%5B%7B%22f%22%3A%22x%22%2C%22o%22%3A%22%3D%22%2C%22v%22%3A%22a%22%7D%2C%7B%22o%22%3A%22aNd%22%2C%22v%22%3A%5B%5D%7D%5D%7D`, `%7B%22f%22%3A%22x%22%2C%22o%22%3A%22%3D%22%2C%22v%22%3A%22a%22%2C%22c%22%3A%22X%22%7D`)
	// and / or groups with null, scalar or ill-shaped children
	add("filter", `%7B%22o%22%3A%22and%22%2C%22v%22%3A%5Bnull%5D%7D`, `%7B%22o%22%3A%22or%22%2C%22v%22%3A%5B%7B%22o%22%3A%22and%22%2C%22v%22%3A%5Bnull%2C5%5D%7D%5D%7D`, `%7B%22o%22%3A%22and%22%2C%22v%22%3Anull%7D`, `null`, `%7B%22o%22%3A%22or%22%2C%22v%22%3A%5B%5B%5D%5D%7D`)
	add("include", ".", "r..s", ".r", "r.s.", "..")
	add("unknown", "1")
	add("fields[a", "x")
	add("sort", "%zz")
	return m
}

// GenURL lets the explorer pick a raw URL: a representative path and 0..maxParams
// query parameters (ordered, with repetition) from the menu.
func GenURL(x *mc.Exec, maxParams int) (raw string, params []qParam, path string) {
	return GenURLOpt(x, maxParams, maxParams, 0, false)
}

// urlMenuReduced: the first perName instances of every parameter name
func urlMenuReduced(perName int) []qParam {
	seen := map[string]int{}
	var m []qParam
	for _, p := range urlMenu() {
		if seen[p.name] < perName {
			m = append(m, p)
		}
		seen[p.name]++
	}
	return m
}

// GenURLOpt: parameters from position fullUpTo on come from the reduced menu (perName instances
// per parameter name) and, with onlyRepPaths, only on four representative paths.
func GenURLOpt(x *mc.Exec, maxParams, fullUpTo, perName int, onlyRepPaths bool) (raw string, params []qParam, path string) {
	full, reduced := urlMenu(), urlMenuReduced(perName)
	path = urlPaths[x.Choose(len(urlPaths), "path")]
	for i := 0; i < maxParams; i++ {
		menu := full
		if i >= fullUpTo {
			menu = reduced
			if onlyRepPaths && path != "/a" && path != "/a/1/rr" && path != "/b" && path != "/cs" {
				break
			}
		}
		c := x.Choose(len(menu)+1, "param")
		if c == len(menu) {
			break
		}
		params = append(params, menu[c])
	}
	raw = path
	for i, p := range params {
		if i == 0 {
			raw += "?"
		} else {
			raw += "&"
		}
		raw += strings.NewReplacer("[", "%5B", "]", "%5D").Replace(p.name) + "=" + p.val
	}
	return raw, params, path
}

var urlDevFuncs = map[string]bool{"NewSimpleURL": true}

// ParseURL parses raw under explorer-controlled map order of the query loop.
func ParseURL(x *mc.Exec, schema *j.Schema, raw string, dev bool) (u *j.URL, err error, panicMsg, site string) {
	run := func() { panicMsg, site = TrySite(func() { u, err = j.NewURLFromRaw(schema, raw) }) }
	if dev {
		WithMapDevIn(x, urlDevFuncs, run)
	} else {
		run()
	}
	return
}

func implSchemaName(soft bool) string {
	if soft {
		return "soft schema"
	}
	return "struct schema"
}

var _ = fmt.Sprint
var _ = mc.Hash
