package props

import (
	"fmt"
	"strings"

	j "github.com/mfcochauxlaberge/jsonapi"

	"verif/mc"
)

// C03 — marshaled documents are well-formed JSON:API.

func c03Docs(x *mc.Exec) {
	c := GenDoc(x, true)
	var out []byte
	var err error
	p := Try(func() { out, err = j.MarshalDocument(c.Doc, c.URL) })
	x.R.Add("transitions", 1)
	x.Observe(string(out), p, err != nil)
	x.R.Sample("doc", c.Desc)
	if p != "" {
		x.Fail("C03:docs:marshal-panic", "%s: MarshalDocument panicked: %s", c.Desc, p)
		return
	}
	if err != nil {
		return // "a successful marshal returns ..."
	}
	x.R.Mark("nontrivial", mc.Hash(string(out)))
	ident := c.DataKind == "identifier" || c.DataKind == "identifiers"
	if rule, msg, _ := ValidateDoc(out, c.Doc.PrePath, ident); rule != "" {
		x.Fail("C03:docs:"+rule, "%s: %s\n  output: %.600s", c.Desc, msg, out)
	}
	// what a marshal returned stays what it was while the next documents are marshaled (the
	// payload of one response is still being written while the next request is served)
	saved := string(out)
	other := &j.Document{PrePath: "https://other", Errors: []j.Error{j.NewErrNotFound(), j.NewErrBadRequest(strings.Repeat("t", 300), strings.Repeat("d", 900))}}
	for i := 0; i < 2; i++ {
		_, _ = j.MarshalDocument(other, c.URL)
	}
	x.R.Add("transitions", 2)
	if string(out) != saved {
		x.Fail("C03:docs:payload-overwritten", "%s: the bytes returned by MarshalDocument changed while two other documents were marshaled:\n  was: %.300s\n  now: %.300s", c.Desc, saved, out)
	}
}

// ---- Include histories -------------------------------------------------------

var c03Primaries = []string{"soft t/1", "wrapped t/1", "Resources[t/1 t/2 u/1]", "SoftCollection[t/1 t/2]", "WrapperCollection[t/1 t/2]", "nil", "Resources[]", "Resources[12 members in descending id order]", "Resources[12 members in scrambled id order]"}

type c03Sys struct {
	primary int
	doc     *j.Document
	schema  *j.Schema
	url     *j.URL
	incl    []func() j.Resource
	names   []string
	grown   int
}

func c03IncludePool() ([]func() j.Resource, []string) {
	mk := func(d TypeD, soft bool, id string) func() j.Resource {
		return func() j.Resource { return docRes(d, soft, id, 1) }
	}
	return []func() j.Resource{
			mk(docT, true, "1"), mk(docT, false, "1"), mk(docT, true, "2"), mk(docU, true, "1"), mk(docU, false, "1"), mk(docU, true, "2"), mk(docT, true, "3"),
			mk(docT, true, "r03"), mk(docT, true, "r10"),
			// t/1 again, as a resource whose own type value has the name t but declares a single attribute
			// (what a partial payload yields): the pair (type name, id) is what counts
			func() j.Resource {
				r := &j.SoftResource{}
				r.SetType(&j.Type{Name: "t", Attrs: map[string]j.Attr{"s": {Name: "s", Type: j.AttrTypeString}}, Rels: map[string]j.Rel{}})
				r.SetID("1")
				r.Set("s", "sparse")
				return r
			},
		}, []string{
			"Include(soft t/1)", "Include(wrapped t/1)", "Include(soft t/2)", "Include(soft u/1)", "Include(wrapped u/1)", "Include(soft u/2)", "Include(soft t/3)", "Include(soft t/r03)", "Include(soft t/r10)", "Include(sparse soft t/1)",
			// the primary data may still grow (or be assigned) between two Include calls
			"primary data gains t/3",
		}
}

func c03New(primary int) *c03Sys {
	y := &c03Sys{primary: primary}
	y.incl, y.names = c03IncludePool()
	softT := primary != 1 && primary != 4
	y.schema = BuildSchema([]TypeD{docT, docU, docQ}, []bool{softT, true, true})
	doc := &j.Document{PrePath: "https://h", RelData: AllRelData(y.schema)}
	frag := []string{"t"}
	switch primary {
	case 0, 1:
		doc.Data = docRes(docT, primary == 0, "1", 0)
		frag = []string{"t", "1"}
	case 2:
		col := &j.Resources{}
		col.Add(docRes(docT, true, "1", 0))
		col.Add(docRes(docT, true, "2", 1))
		col.Add(docRes(docU, true, "1", 0))
		doc.Data = col
	case 3:
		typ := docT.SoftType()
		col := &j.SoftCollection{}
		col.SetType(&typ)
		col.Add(docRes(docT, true, "1", 0))
		col.Add(docRes(docT, true, "2", 1))
		doc.Data = col
	case 4:
		col := j.WrapCollection(docT.NewRes(false))
		col.Add(docRes(docT, false, "1", 0))
		col.Add(docRes(docT, false, "2", 1))
		doc.Data = col
	case 7, 8:
		// larger than any small-collection fast path, and not in ascending id order
		col := &j.Resources{}
		for i := 0; i < 12; i++ {
			k := 11 - i
			if primary == 8 {
				k = (i*5 + 3) % 12
			}
			col.Add(docRes(docT, true, fmt.Sprintf("r%02d", k), i))
		}
		doc.Data = col
	case 5:
		doc.Data = nil
	case 6:
		doc.Data = &j.Resources{}
	}
	y.doc = doc
	y.url = AllFieldsURL(y.schema, frag...)
	return y
}

func (y *c03Sys) Key() string {
	s := fmt.Sprint(y.grown, ";")
	for _, r := range y.doc.Included {
		s += fmt.Sprintf("%T %s/%v;", r, r.GetType().Name, r.Get("id"))
	}
	return s
}

func (y *c03Sys) Apply(op int) (fails []mc.Violation, fatal bool) {
	name := y.names[op]
	where := fmt.Sprintf("primary=%s", c03Primaries[y.primary])
	if op == len(y.incl) {
		if y.grown > 0 {
			return nil, false
		}
		for _, r := range y.doc.Included {
			if r.GetType().Name == "t" && r.Get("id") == "3" {
				// adding to the primary data what was already included is the caller's doing, not Include's
				return nil, false
			}
		}
		y.grown++
		soft := y.primary != 1 && y.primary != 4
		r := docRes(docT, soft, "3", 2)
		if col, ok := y.doc.Data.(j.Collection); ok {
			col.Add(r)
		} else {
			y.doc.Data = r
		}
	} else if p := Try(func() { y.doc.Include(y.incl[op]()) }); p != "" {
		return []mc.Violation{{Sig: "C03:include:panic", Msg: fmt.Sprintf("%s: %s panicked: %s", where, name, p)}}, true
	}
	var out []byte
	var err error
	if p := Try(func() { out, err = j.MarshalDocument(y.doc, y.url) }); p != "" {
		return []mc.Violation{{Sig: "C03:include:marshal-panic", Msg: fmt.Sprintf("%s: marshal after %s panicked: %s", where, name, p)}}, true
	}
	if err != nil {
		return nil, false
	}
	rule, msg, objs := ValidateDoc(out, y.doc.PrePath, false)
	if rule != "" {
		fails = append(fails, mc.Violation{Sig: "C03:include:" + rule, Msg: fmt.Sprintf("%s after %s: %s", where, name, msg)})
	}
	if d := dupPairs(objs); len(d) > 0 {
		fails = append(fails, mc.Violation{Sig: fmt.Sprintf("C03:include:duplicate-linkage:primary%d", y.primary),
			Msg: fmt.Sprintf("%s: after %s the type/ID pair(s) %v appear more than once across data and included\n  output: %.500s", where, name, d, out)})
	}
	return
}

func c03BFS(c *Ctx, primary int) *mc.BFS {
	depth := 4
	if Thorough() {
		depth = 6
	}
	_, names := c03IncludePool()
	return &mc.BFS{Name: fmt.Sprintf("C03/include-%d", primary), NOps: len(names), MaxDepth: depth, Workers: c.Workers, R: c.R,
		OpName: func(i int) string { return names[i] },
		New:    func() mc.System { return c03New(primary) }}
}

func init() {
	hs := []Harness{{Name: "C03/docs", Body: c03Docs}}
	for p := range c03Primaries {
		p := p
		hs = append(hs, Harness{Name: fmt.Sprintf("C03/include-%d", p),
			Custom: func(c *Ctx) {
				if !c03BFS(c, p).Explore() {
					c.R.Cap("C03 include incomplete")
				}
			},
			ReplayCustom: func(c *Ctx, ch []int) []mc.Violation { v, _ := c03BFS(c, p).ReplayHistory(ch); return v }})
	}
	Register(&Prop{
		ID:          "C03",
		Rule:        "Engine A: the complete product 19 primary-data kinds (nil, soft/wrapped/escape-needing/ID-less resource, resources with every kind at its extremes, Resources/SoftCollection/WrapperCollection of 0..3, Identifier, Identifiers of 0/2) x 5 included lists x 4 metas x 3 error lists x 6 path prefixes (with / without / with several trailing slashes) x 3 field selections x 2 relationship-data requests; every successful marshal is parsed by an independent JSON:API structure validator (jsonapi member, self link, data xor errors, included only with data, resource-object type/id/self link = prefix+type+id, relationship links and data shape); the returned bytes must still be the same after two other documents were marshaled. Engine B: for 9 primary-data implementations (incl. collections of 12 members in descending / scrambled id order), ALL sequences (depth <= 4 quick / 6 thorough) of Include over 10 resources (one of them t/1 under a sparser type value of the same name) colliding with primary data, with each other (same pair as a different object / implementation) or with nothing, interleaved with the primary data gaining a resource (collection Add / Data assigned late); after every Include the marshaled document is validated and no type/ID pair may appear twice. Non-trivial = distinct successful output",
		Assumptions: []string{"non-empty type names; a resource without ID must still carry a string id member, but the text of its links is not judged beyond the library's own convention (bare prefix)", "uniqueness applies to resource objects (an identifier in data plus the full resource in included is fine)"},
		Harnesses:   hs,
	})
}
