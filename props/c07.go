package props

import (
	"fmt"
	neturl "net/url"
	"strings"

	j "github.com/mfcochauxlaberge/jsonapi"

	"verif/mc"
)

// C07 — URL parsing never panics and its result is consistent with the schema.

func splitList(s string) []string {
	var out []string
	for _, it := range strings.Split(s, ",") {
		if it != "" {
			out = append(out, it)
		}
	}
	return out
}

// c07Judge checks a returned URL against the schema and the request. It returns
// (clause, message) of the first inconsistency.
func c07Judge(raw string, u *j.URL) (string, string) {
	pu, err := neturl.Parse(raw)
	if err != nil {
		return "accepted-unparsable", "net/url cannot parse the raw URL but the library returned a URL"
	}
	q := pu.Query()
	var frags []string
	for _, f := range strings.Split(pu.Path, "/") {
		if f != "" {
			frags = append(frags, f)
		}
	}
	if u.Params == nil {
		return "nil-params", "URL without Params"
	}
	rt := urlTypeD(u.ResType)
	if rt == nil {
		return "restype", fmt.Sprintf("ResType %q is not a schema type", u.ResType)
	}
	isCol := len(frags) == 1
	if len(frags) >= 3 {
		if r := urlTypeD(frags[0]).rel(frags[len(frags)-1]); r != nil {
			isCol = !r.ToOne
		}
	}

	// field selection
	if _, ok := u.Params.Fields[u.ResType]; !ok {
		return "fields-restype-missing", fmt.Sprintf("no field-selection entry for the resource type %q: %v", u.ResType, u.Params.Fields)
	}
	for t, got := range u.Params.Fields {
		d := urlTypeD(t)
		if d == nil {
			return "fields-unknown-type", fmt.Sprintf("field selection names type %q, not in the schema", t)
		}
		seen := map[string]bool{}
		for _, f := range got {
			if f != "id" && !d.hasAttr(f) && d.rel(f) == nil {
				return "fields-unknown-field", fmt.Sprintf("field selection of %q lists %q, which is not one of its fields", t, f)
			}
			if seen[f] {
				return "fields-duplicate", fmt.Sprintf("field selection of %q lists %q twice: %v", t, f, got)
			}
			seen[f] = true
		}
		var valid []string
		vseen := map[string]bool{}
		for _, f := range splitList(q.Get("fields[" + t + "]")) {
			if (f == "id" || d.hasAttr(f) || d.rel(f) != nil) && !vseen[f] {
				valid = append(valid, f)
				vseen[f] = true
			}
		}
		want := valid
		if len(valid) == 0 {
			want = d.fieldNames()
		}
		if !sameSet(want, got) || len(want) != len(got) {
			return "fields-content", fmt.Sprintf("field selection of %q is %v, expected %v (requested %q)", t, got, want, q.Get("fields["+t+"]"))
		}
	}
	for name := range q {
		if strings.HasPrefix(name, "fields[") && strings.HasSuffix(name, "]") && len(name) > 8 {
			t := name[7 : len(name)-1]
			if urlTypeD(t) != nil && len(q.Get(name)) > 0 {
				if _, ok := u.Params.Fields[t]; !ok {
					return "fields-requested-type-missing", fmt.Sprintf("fields[%s] was requested but the selection has no entry for it", t)
				}
			}
		}
	}

	// inclusion paths
	var requested []string
	for _, v := range q["include"] {
		requested = append(requested, splitList(v)...)
	}
	validPath := func(p string) bool {
		cur := rt
		for _, w := range strings.Split(p, ".") {
			r := cur.rel(w)
			if r == nil {
				return false
			}
			cur = urlTypeD(r.Target)
		}
		return true
	}
	gotPaths := map[string]bool{}
	for i, chain := range u.Params.Include {
		cur := rt
		var words []string
		if len(chain) == 0 {
			return "include-empty-path", fmt.Sprintf("inclusion path %d is empty", i)
		}
		for k, rel := range chain {
			r := cur.rel(rel.FromName)
			if r == nil || rel.ToType != r.Target || rel.ToOne != r.ToOne {
				kind := "wrong-rel"
				if rel == (j.Rel{}) {
					// the recorded finding needs two unknown paths in one request; a zero Rel without
					// them is something else
					kind = "zero-rel"
					unknown := 0
					for _, rq := range requested {
						if !validPath(rq) {
							unknown++
						}
					}
					if unknown < 2 {
						kind = "zero-rel-without-two-unknown-paths"
					}
				}
				return "include-not-a-chain:" + kind, fmt.Sprintf("inclusion path %d, step %d (%s) is not a relationship of type %q (requested include=%v)", i, k, showRel(rel), cur.Name, requested)
			}
			words = append(words, rel.FromName)
			cur = urlTypeD(r.Target)
		}
		p := strings.Join(words, ".")
		ok := false
		for _, rq := range requested {
			if rq == p {
				ok = true
			}
		}
		if !ok {
			return "include-not-requested", fmt.Sprintf("inclusion path %q was not requested (include=%v)", p, requested)
		}
		if gotPaths[p] {
			return "include-redundant:duplicate", fmt.Sprintf("inclusion path %q is returned twice (include=%v)", p, requested)
		}
		gotPaths[p] = true
	}
	for p := range gotPaths {
		for other := range gotPaths {
			if strings.HasPrefix(other, p+".") {
				return "include-redundant:extended", fmt.Sprintf("inclusion path %q is kept although the kept path %q extends it (include=%v)", p, other, requested)
			}
		}
	}
	for _, rq := range requested {
		if !validPath(rq) || gotPaths[rq] {
			continue
		}
		extended := false
		for _, other := range requested {
			if other != rq && strings.HasPrefix(other, rq+".") {
				extended = true
			}
		}
		if !extended {
			return "include-dropped", fmt.Sprintf("valid requested inclusion path %q is missing from the result %v (include=%v)", rq, SortedKeys(gotPaths), requested)
		}
	}

	// sorting rules of collection URLs: by the harness's reading of the path, and whenever the
	// returned URL itself says it is a collection
	if isCol || u.IsCol {
		var caller []string
		for _, v := range q["sort"] {
			caller = append(caller, splitList(v)...)
		}
		hasID := false
		for _, r := range u.Params.SortingRules {
			n := strings.TrimPrefix(r, "-")
			if n == "id" {
				hasID = true
				continue
			}
			if !rt.hasAttr(n) {
				return "sort-unknown", fmt.Sprintf("sorting rule %q names neither id nor an attribute of %q", r, rt.Name)
			}
		}
		if !hasID {
			return "sort-no-id", fmt.Sprintf("sorting rules %v do not contain id", u.Params.SortingRules)
		}
		// the caller's valid rules, minus later repeats of a field and everything
		// after the first id rule (which cannot change the order)
		var want []string
		seen := map[string]bool{}
		for _, r := range caller {
			n := strings.TrimPrefix(r, "-")
			if n != "id" && !rt.hasAttr(n) {
				continue
			}
			if seen[n] {
				continue
			}
			seen[n] = true
			want = append(want, r)
			if n == "id" {
				break
			}
		}
		// compare against the result with its own later repeats removed
		var got []string
		gseen := map[string]bool{}
		for _, r := range u.Params.SortingRules {
			n := strings.TrimPrefix(r, "-")
			if gseen[n] {
				continue
			}
			gseen[n] = true
			got = append(got, r)
		}
		if len(got) < len(want) {
			return "sort-order", fmt.Sprintf("sorting rules %v do not start with the caller's valid rules %v (sort=%v)", u.Params.SortingRules, want, caller)
		}
		for i := range want {
			if got[i] != want[i] {
				return "sort-order", fmt.Sprintf("sorting rules %v do not start with the caller's valid rules %v (sort=%v)", u.Params.SortingRules, want, caller)
			}
		}
	}
	return "", ""
}

func c07Check(x *mc.Exec, schema *j.Schema, raw string, dev bool) (*j.URL, bool) {
	u, err, pmsg, site := ParseURL(x, schema, raw, dev)
	x.R.Add("transitions", 1)
	x.Observe(raw, pmsg, err != nil)
	switch {
	case pmsg != "":
		x.Fail(fmt.Sprintf("C07:panic:%s:%s", site, Slug2(pmsg)), "NewURLFromRaw(%q) panicked in %s: %s", raw, site, pmsg)
		return nil, false
	case err != nil && u != nil:
		x.Fail("C07:error-and-url", "NewURLFromRaw(%q) returned both a URL and an error (%v)", raw, err)
		return nil, false
	case err == nil && u == nil:
		x.Fail("C07:neither", "NewURLFromRaw(%q) returned neither a URL nor an error", raw)
		return nil, false
	case err != nil:
		return nil, false
	}
	var clause, msg string
	if p := Try(func() { clause, msg = c07Judge(raw, u) }); p != "" {
		x.Fail("C07:judge-panic", "inspecting the URL of %q panicked: %s", raw, p)
		return u, false
	}
	if clause != "" {
		x.Fail("C07:"+clause, "NewURLFromRaw(%q): %s", raw, msg)
		return u, false
	}
	return u, true
}

func c07Query(x *mc.Exec) {
	max := 2
	if Thorough() {
		max = 3
	}
	// thorough: a third parameter out of two instances per parameter name
	raw, params, _ := GenURLOpt(x, max, 2, 2, false)
	soft := len(x.Choices())%2 == 0 // alternate realisations without another dimension
	if Thorough() {
		soft = x.Choose(2, "schema") == 0
	}
	x.Render(raw)
	if len(params) >= 2 {
		x.R.Mark("nontrivial", mc.Hash(raw, soft))
	}
	x.R.Sample(fmt.Sprintf("query-%d", len(params)), raw)
	c07Check(x, urlSchema(soft), raw, true)
}

// every path shape with 0..6 fragments, no query
func c07Paths(x *mc.Exec) {
	pos := [][]string{
		{"a", "b", "c", "one", "none", "self", "nope", "%zz", "meta", "a%20b"},
		{"1", "meta", "a%20b", "relationships"},
		{"r", "rr", "ab", "s", "me", "zz", "relationships", "meta", "t"},
		{"r", "rr", "ab", "me", "zz", "meta", "s", "t"},
		{"meta", "x", "r"},
		{"x", "meta"},
	}
	n := x.Choose(7, "length")
	path := ""
	for i := 0; i < n; i++ {
		path += "/" + pos[i][x.Choose(len(pos[i]), "fragment")]
	}
	variant := x.Choose(4, "decoration")
	raw := path
	switch variant {
	case 1:
		raw = path + "/"
	case 2:
		raw = "/" + path
	case 3:
		raw = path + "?sort=x&include=r"
	}
	soft := x.Choose(2, "schema") == 0
	x.Render(raw)
	x.R.Mark("nontrivial", mc.Hash(raw, soft))
	x.R.Sample(fmt.Sprintf("path-%d", n), raw)
	c07CheckAll(x, urlSchema(soft), raw)
}

// c07CheckAll is c07Check with EVERY map loop of the parser (NewSimpleURL,
// NewParams, NewURL and what they call) under explorer control.
func c07CheckAll(x *mc.Exec, schema *j.Schema, raw string) {
	var u *j.URL
	var err error
	var pmsg, site string
	WithMapDev(x, func() { pmsg, site = TrySite(func() { u, err = j.NewURLFromRaw(schema, raw) }) })
	x.R.Add("transitions", 1)
	x.Observe(raw, pmsg, err != nil)
	switch {
	case pmsg != "":
		x.Fail(fmt.Sprintf("C07:panic:%s:%s", site, Slug2(pmsg)), "NewURLFromRaw(%q) panicked in %s: %s", raw, site, pmsg)
	case err != nil && u != nil:
		x.Fail("C07:error-and-url", "NewURLFromRaw(%q) returned both a URL and an error (%v)", raw, err)
	case err == nil && u == nil:
		x.Fail("C07:neither", "NewURLFromRaw(%q) returned neither a URL nor an error", raw)
	case err == nil:
		var clause, msg string
		if p := Try(func() { clause, msg = c07Judge(raw, u) }); p != "" {
			x.Fail("C07:judge-panic", "inspecting the URL of %q panicked: %s", raw, p)
		} else if clause != "" {
			x.Fail("C07:"+clause, "NewURLFromRaw(%q) under map schedule %v: %s", raw, x.Choices(), msg)
		}
	}
}

// c07AfterEdits: "consistent with the schema" means the schema as it is NOW:
// a URL is parsed, the same schema object is edited, and URLs are parsed again;
// every result is compared with the result against a freshly built schema of
// the same content (a parser that remembers field lists per schema object
// would differ).
func c07AfterEdits(x *mc.Exec) {
	build := func(edits []int) *j.Schema {
		flags := make([]bool, len(urlTypes))
		for i := range flags {
			flags[i] = true
		}
		s := BuildSchema(urlTypes, flags)
		for _, e := range edits {
			c07ApplyEdit(s, e)
		}
		return s
	}
	raws := []string{"/a", "/a?fields%5Ba%5D=x,y&sort=y", "/a/1/rr?include=s", "/a?fields%5Ba%5D=w,x&sort=-w", "/b?include=r", "/a?include=r2,r&fields%5Ba%5D=r2"}
	live := build(nil)
	var edits []int
	desc := ""
	for step := 0; step < 3; step++ {
		raw := raws[x.Choose(len(raws), "url")]
		got, gerr, gp, _ := ParseURL(x, live, raw, false)
		want, werr, wp, _ := ParseURL(x, build(edits), raw, false)
		x.R.Add("transitions", 2)
		desc += "parse " + raw + "; "
		if gp != "" || wp != "" {
			x.Fail("C07:after-edits:panic", "%s panicked: %s %s", desc, gp, wp)
			return
		}
		if (gerr == nil) != (werr == nil) {
			x.Fail("C07:after-edits:acceptance", "%s: the edited schema object answers error=%v, an equal fresh schema error=%v", desc, gerr, werr)
			return
		}
		if gerr == nil {
			if d := diffViews(viewOf(want), viewOf(got)); d != "" {
				x.Fail("C07:after-edits:stale", "%s: against the edited schema object the URL differs from the one against an equal fresh schema: %s", desc, d)
				return
			}
			if clause, msg := c07JudgeEdited(raw, got, live); clause != "" {
				x.Fail("C07:after-edits:"+clause, "%s: %s", desc, msg)
				return
			}
		}
		e := x.Choose(c07NEdits, "edit")
		c07ApplyEdit(live, e)
		edits = append(edits, e)
		desc += c07EditNames[e] + "; "
	}
	x.Render(desc)
	x.R.Mark("nontrivial", mc.Hash(desc))
	x.R.Sample("after-edits", desc)
}

var c07EditNames = []string{"none", "RemoveAttr(a.y)", "AddAttr(a.w)", "AddRel(a.r2->b)", "RemoveRel(a.rr)", "RemoveAttr(a.x)+AddAttr(a.x2)"}

const c07NEdits = 6

func c07ApplyEdit(s *j.Schema, e int) {
	switch e {
	case 1:
		s.RemoveAttr("a", "y")
	case 2:
		_ = s.AddAttr("a", j.Attr{Name: "w", Type: j.AttrTypeInt})
	case 3:
		_ = s.AddRel("a", j.Rel{FromType: "a", FromName: "r2", ToOne: true, ToType: "b"})
	case 4:
		s.RemoveRel("a", "rr")
	case 5:
		s.RemoveAttr("a", "x")
		_ = s.AddAttr("a", j.Attr{Name: "x2", Type: j.AttrTypeString})
	}
}

// c07JudgeEdited: every name in the field selection of the resource type is a
// field of the type as the schema holds it now.
func c07JudgeEdited(raw string, u *j.URL, s *j.Schema) (string, string) {
	for t, fs := range u.Params.Fields {
		typ := s.GetType(t)
		for _, f := range fs {
			_, isA := typ.Attrs[f]
			_, isR := typ.Rels[f]
			if f != "id" && !isA && !isR {
				return "stale-field", fmt.Sprintf("URL %s selects %q for type %q, which the schema no longer has", raw, f, t)
			}
		}
	}
	return "", ""
}

// c07Retained: a URL returned by the parser stays what it was while other URLs are parsed (its
// slices must not be backed by storage the parser reuses).
func c07Retained(x *mc.Exec) {
	soft := x.Bool("soft")
	schema := urlSchema(soft)
	raws := []string{"/a", "/a?sort=zz", "/b", "/cs", "/a?sort=-x", "/one", "/c/1/t", "/a?fields%5Ba%5D=x&include=r", "/none", "/a/1/rr?sort=x", "/self?include=me.me"}
	n := 2 + x.Choose(2, "parses")
	var urls []*j.URL
	var snaps []string
	desc := ""
	for i := 0; i < n; i++ {
		raw := raws[x.Choose(len(raws), "url")]
		desc += raw + " ; "
		u, err, pmsg, _ := ParseURL(x, schema, raw, false)
		x.R.Add("transitions", 1)
		if pmsg != "" || err != nil || u == nil {
			return // C07/query's business
		}
		if rule, msg := c07Judge(raw, u); rule != "" {
			x.Fail("C07:retained:"+rule, "%s (parse %d of [%s]): %s", raw, i+1, desc, msg)
			return
		}
		urls, snaps = append(urls, u), append(snaps, mc.Snap(u))
	}
	x.Render(desc)
	x.R.Mark("nontrivial", mc.Hash(desc, soft))
	for i, u := range urls {
		if now := mc.Snap(u); now != snaps[i] {
			x.Fail("C07:retained:earlier-url-changed", "after [%s] the URL returned by parse %d is no longer what was returned:\n  then: %.400s\n  now:  %.400s", desc, i+1, snaps[i], now)
			return
		}
	}
}

func init() {
	Register(&Prop{
		ID: "C07",
		Rule: "Engine A: (a) every path of 0..6 fragments over per-position alphabets (types incl. one-attribute, field-less and self-referential ones, unknown word, percent-escape, malformed escape, id, 'relationships', 'meta', every relationship name) x 4 decorations x {soft, struct-backed} schema; (b) 19 representative paths x every ordered sequence with repetition of 0..2 query parameters from a menu of ~150 instances (thorough: plus a third one out of two instances per parameter name) (fields[] with valid/unknown/duplicate/id/empty lists for known, unknown and empty types; sort with repeats, '-', id, unknown names, empty items; include with names that are string prefixes of one another, unknown names, nested paths to depth 3, self-reference; page[]; filter labels, empty value, JSON trees, malformed JSON; unknown and malformed parameter names); the iteration order of the query-parameter map is a deviation-bounded choice (bound 1). (c) three parses interleaved with edits (RemoveAttr/AddAttr/AddRel/RemoveRel/rename) of the SAME schema object, each compared with a parse against a freshly built equal schema. (d) every sequence of 2..3 parses over 11 URLs with all returned URLs retained and compared with their deep snapshots at the end. Oracle: no panic, exactly one of (URL, error), and an independent reading of the request (net/url + the type table) for ResType, field selection, inclusion chains and sorting rules. Non-trivial = URL with >= 2 parameters / any path",
		Assumptions: []string{"a valid requested inclusion path must be kept unless another REQUESTED path (valid or not) extends it by a dotted prefix (weaker reading)", "'kept unless a longer requested path extends it' is read as: an extended or repeated path is not returned a second time (the result is an antichain without duplicates)"},
		Harnesses: []Harness{
			{Name: "C07/query", Body: c07Query, Dev: func() int { return 1 }},
			{Name: "C07/paths", Body: c07Paths, Dev: func() int { return 1 }},
			{Name: "C07/after-edits", Body: c07AfterEdits},
			{Name: "C07/retained", Body: c07Retained},
		},
	})
}
