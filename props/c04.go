package props

import (
	"encoding/json"
	"fmt"
	"reflect"
	"sort"

	j "github.com/mfcochauxlaberge/jsonapi"

	"verif/mc"
)

// C04 — sparse fieldsets and relationship data are honoured exactly.

var (
	c04T = TypeD{Name: "t", Attrs: []AttrD{{"a", Kind{j.AttrTypeString, false}}, {"ab", Kind{j.AttrTypeInt, true}}},
		Rels: []RelD{{"one", true, "u", ""}, {"ones", false, "u", ""}}}
	c04U = TypeD{Name: "u", Attrs: []AttrD{{"b", Kind{j.AttrTypeBool, false}}, {"a", Kind{j.AttrTypeString, false}}},
		Rels: []RelD{{"r", true, "t", ""}, {"one", false, "t", ""}}}
)

func subsetOf(names []string, mask int) []string {
	out := []string{}
	for i, n := range names {
		if mask&(1<<i) != 0 {
			out = append(out, n)
		}
	}
	return out
}

// resourceObjects returns every resource object of a marshaled document.
func resourceObjects(doc map[string]any) []map[string]any {
	var out []map[string]any
	add := func(v any) {
		switch v := v.(type) {
		case map[string]any:
			out = append(out, v)
		case []any:
			for _, e := range v {
				if m, ok := e.(map[string]any); ok {
					out = append(out, m)
				}
			}
		}
	}
	add(doc["data"])
	add(doc["included"])
	return out
}

func keysOf(v any) []string {
	m, _ := v.(map[string]any)
	ks := []string{}
	for k := range m {
		ks = append(ks, k)
	}
	sort.Strings(ks)
	return ks
}

func c04Body(x *mc.Exec) {
	soft := x.Choose(2, "impl") == 0
	selT := x.Choose(22, "selection t")
	rdT := x.Choose(6, "reldata t")
	pos := x.Choose(4, "position")
	selU := x.Choose(3, "selection u")
	rdU := x.Choose(2, "reldata u")

	_ = BuildSchema([]TypeD{c04T, c04U}, []bool{soft, soft})
	tFields := []string{"a", "ab", "one", "ones"}
	fields := map[string][]string{}
	switch {
	case selT < 16:
		fields["t"] = subsetOf(tFields, selT)
	case selT == 16:
		fields["t"] = []string{"a", "zzz", "one"}
	case selT == 17:
		fields["t"] = []string{"id", "a"}
	case selT == 18:
		fields["t"] = []string{"a", "one", "a", "one"}
	case selT == 21:
		// unknown names that differ from real ones by case only (incl. Unicode case folding)
		fields["t"] = []string{"A", "Ab", "ONE", "one\u017f"}
	case selT == 19:
		// no entry for t
	case selT == 20:
		fields = nil
	}
	if fields != nil {
		switch selU {
		case 0:
			fields["u"] = []string{"a", "b", "one", "r"}
		case 1:
			fields["u"] = []string{}
		}
	}
	relData := map[string][]string{}
	switch {
	case rdT < 4:
		relData["t"] = subsetOf([]string{"one", "ones"}, rdT)
	case rdT == 4:
		relData["t"] = []string{"zzz", "one"}
	case rdT == 5:
		// entry for the other type only, naming t's relationships
		relData["u"] = []string{"one", "ones"}
	}
	if rdU == 1 {
		relData["u"] = append(relData["u"], "r")
	}

	mk := func(d TypeD, id string, set map[string]any) j.Resource {
		r := d.NewRes(soft)
		if sr, ok := r.(*j.SoftResource); ok && selU == 2 {
			// hand-declared relationships may leave FromType empty (or stale after a
			// type was copied and renamed): the data request is by the resource's type
			for n, rel := range sr.Type.Rels {
				rel.FromType = map[bool]string{true: "", false: "othertype"}[rdU == 0]
				sr.Type.Rels[n] = rel
			}
		}
		r.Set("id", id)
		for k, v := range set {
			r.Set(k, v)
		}
		return r
	}
	t1 := mk(c04T, "1", map[string]any{"a": "x", "ab": Ptr(int(5)), "one": "u1", "ones": []string{"u2", "u1", "u2", "w\v\x01\x7f\U000E0001\"\\"}})
	t2 := mk(c04T, "2", map[string]any{"a": "", "one": "", "ones": []string{}})
	u1 := mk(c04U, "u1", map[string]any{"b": true, "r": "1", "one": []string{"2"}})
	related := map[string]map[string][]string{
		"t/1": {"one": {"u1"}, "ones": {"u1", "u2", "u2", "w\v\x01\x7f\U000E0001\"\\"}}, "t/2": {"one": {}, "ones": {}},
		"u/u1": {"r": {"1"}, "one": {"2"}},
	}

	doc := &j.Document{RelData: relData}
	frag := []string{"t"}
	switch pos {
	case 0:
		doc.Data = t1
		doc.Included = []j.Resource{u1}
		frag = []string{"t", "1"}
	case 1:
		// an untyped collection whose members have different types (and
		// therefore different selections)
		col := &j.Resources{}
		col.Add(t1)
		col.Add(u1)
		col.Add(t2)
		doc.Data = col
	case 2:
		if soft {
			typ := c04T.SoftType()
			col := &j.SoftCollection{}
			col.SetType(&typ)
			col.Add(t1)
			col.Add(t2)
			doc.Data = col
		} else {
			col := j.WrapCollection(c04T.NewRes(false))
			col.Add(t1)
			col.Add(t2)
			doc.Data = col
		}
		doc.Included = []j.Resource{u1}
	case 3:
		doc.Data = u1
		doc.Included = []j.Resource{t2, t1}
		frag = []string{"u", "u1"}
	}
	url := &j.URL{Fragments: frag, ResType: frag[0], IsCol: len(frag) == 1,
		Params: &j.Params{Fields: fields, RelData: map[string][]string{}}}

	desc := fmt.Sprintf("%s pos=%d fields=%v relData=%v", implName(soft), pos, fields, relData)
	x.Render(desc)
	x.R.Sample("doc", desc)
	x.R.Mark("nontrivial", mc.Hash(desc))

	var out []byte
	var err error
	var first []byte
	p := Try(func() {
		// the same Document object was marshaled before with everything selected and all relationship
		// data asked for (another request for the same data): nothing of that may stick to it
		everything := map[string][]string{"t": {"a", "ab", "one", "ones"}, "u": {"a", "b", "one", "r"}}
		doc.RelData = map[string][]string{"t": {"one", "ones"}, "u": {"r", "one"}}
		_, _ = j.MarshalDocument(doc, &j.URL{Fragments: frag, ResType: frag[0], IsCol: len(frag) == 1,
			Params: &j.Params{Fields: everything, RelData: map[string][]string{}}})
		doc.RelData = relData
		first, err = j.MarshalDocument(doc, url)
		if err == nil {
			out, err = j.MarshalDocument(doc, url)
		}
	})
	x.R.Add("transitions", 3)
	x.Observe(string(out), p)
	if p != "" {
		x.Fail("C04:panic", "MarshalDocument panicked (%s): %s", desc, p)
		return
	}
	if err == nil && string(first) != string(out) {
		x.Fail("C04:second-marshal-differs", "%s: marshaling the same document twice gives different resource objects:\n  %.300s\n  %.300s", desc, first, out)
		return
	}
	if err != nil {
		x.Fail("C04:error", "MarshalDocument failed (%s): %v", desc, err)
		return
	}
	var top map[string]any
	if err := json.Unmarshal(out, &top); err != nil {
		x.Fail("C04:json", "output is not JSON (%s): %v", desc, err)
		return
	}
	objs := resourceObjects(top)
	wantN := map[int]int{0: 2, 1: 3, 2: 3, 3: 3}[pos]
	if len(objs) != wantN {
		x.Fail("C04:objects", "%s: %d resource objects in output, expected %d: %s", desc, len(objs), wantN, out)
	}
	defs := map[string]TypeD{"t": c04T, "u": c04U}
	for _, o := range objs {
		typ, _ := o["type"].(string)
		id, _ := o["id"].(string)
		d, ok := defs[typ]
		if !ok {
			x.Fail("C04:type", "%s: resource object of type %q", desc, typ)
			continue
		}
		sel := map[string]bool{}
		for _, f := range fields[typ] {
			sel[f] = true
		}
		wantAttrs, wantRels := []string{}, []string{}
		for _, a := range d.Attrs {
			if sel[a.Name] {
				wantAttrs = append(wantAttrs, a.Name)
			}
		}
		for _, r := range d.Rels {
			if sel[r.Name] {
				wantRels = append(wantRels, r.Name)
			}
		}
		sort.Strings(wantAttrs)
		sort.Strings(wantRels)
		where := fmt.Sprintf("pos%d:%s", pos, typ)
		if got := keysOf(o["attributes"]); !reflect.DeepEqual(got, wantAttrs) {
			x.Fail("C04:attributes:"+where, "%s: %s/%s exposes attributes %v, selection allows %v", desc, typ, id, got, wantAttrs)
		}
		if got := keysOf(o["relationships"]); !reflect.DeepEqual(got, wantRels) {
			x.Fail("C04:relationships:"+where, "%s: %s/%s exposes relationships %v, selection allows %v", desc, typ, id, got, wantRels)
		}
		asked := map[string]bool{}
		for _, n := range relData[typ] {
			asked[n] = true
		}
		relsObj, _ := o["relationships"].(map[string]any)
		for _, r := range d.Rels {
			raw, listed := relsObj[r.Name]
			ro, present := raw.(map[string]any)
			if listed && !present {
				x.Fail("C04:relationship-shape:"+where, "%s: %s/%s relationship %q is %v, not a relationship object", desc, typ, id, r.Name, raw)
				continue
			}
			if !present {
				continue
			}
			data, has := ro["data"]
			if has != asked[r.Name] {
				x.Fail("C04:data-presence:"+where, "%s: %s/%s relationship %q has data=%v but requested=%v", desc, typ, id, r.Name, has, asked[r.Name])
				continue
			}
			if !has {
				continue
			}
			want := related[typ+"/"+id][r.Name]
			var got []string
			bad := false
			one := func(v any) {
				m, ok := v.(map[string]any)
				if !ok || m["type"] != r.Target {
					bad = true
					return
				}
				s, _ := m["id"].(string)
				got = append(got, s)
			}
			if r.ToOne {
				if data == nil {
					if len(want) != 0 {
						bad = true
					}
				} else {
					one(data)
				}
			} else {
				l, ok := data.([]any)
				if !ok {
					bad = true
				}
				for _, e := range l {
					one(e)
				}
			}
			sort.Strings(got)
			if bad || !(len(got) == 0 && len(want) == 0 || reflect.DeepEqual(got, want)) {
				x.Fail("C04:data-content:"+where, "%s: %s/%s relationship %q data %v, expected ids %v of type %q", desc, typ, id, r.Name, data, want, r.Target)
			}
		}
	}
}

// c04Parsed obtains the selection through the URL parser for valid subsets.
func c04Parsed(x *mc.Exec) {
	soft := x.Choose(2, "impl") == 0
	mask := 1 + x.Choose(15, "subset")
	order := x.Choose(2, "order")
	schema := BuildSchema([]TypeD{c04T, c04U}, []bool{soft, soft})
	sel := subsetOf([]string{"a", "ab", "one", "ones"}, mask)
	if order == 1 {
		for i, k := 0, len(sel)-1; i < k; i, k = i+1, k-1 {
			sel[i], sel[k] = sel[k], sel[i]
		}
	}
	raw := "/t/1?fields[t]="
	for i, s := range sel {
		if i > 0 {
			raw += ","
		}
		raw += s
	}
	// inclusion paths in the URL say what the client wants side-loaded; whether a relationship
	// carries data is the document's (RelData) decision alone
	inc := []string{"", "&include=one", "&include=ones", "&include=ones,one.r"}[x.Choose(4, "include")]
	raw += inc
	x.Render(raw)
	url, err := j.NewURLFromRaw(schema, raw)
	if err != nil {
		x.Fail("C04:parsed:url", "URL %s rejected: %v", raw, err)
		return
	}
	// the selection in force is the one the URL holds when the document is marshaled:
	// a handler may narrow (or widen) what the client asked for
	if edit := x.Choose(17, "selection edited after parsing"); edit > 0 {
		sel = subsetOf([]string{"a", "ab", "one", "ones"}, edit-1)
		url.Params.Fields["t"] = append([]string{}, sel...)
		raw += fmt.Sprintf(" then Params.Fields[t]=%v", sel)
		x.Render(raw)
	}
	r := c04T.NewRes(soft)
	r.Set("id", "1")
	r.Set("one", "u1")
	asked := [][]string{{"one"}, {}, {"ones"}}[x.Choose(3, "relationship data asked for")]
	doc := &j.Document{Data: r, RelData: map[string][]string{"t": asked}}
	if inc != "" {
		ir := c04U.NewRes(soft)
		ir.Set("id", "u1")
		doc.Included = []j.Resource{ir}
	}
	raw += fmt.Sprintf(" RelData[t]=%v", asked)
	x.Render(raw)
	var out []byte
	p := Try(func() { out, err = j.MarshalDocument(doc, url) })
	x.R.Add("transitions", 1)
	x.R.Mark("nontrivial", mc.Hash(raw, soft))
	if p != "" || err != nil {
		x.Fail("C04:parsed:marshal", "marshal with %s: panic %q err %v", raw, p, err)
		return
	}
	var top map[string]any
	_ = json.Unmarshal(out, &top)
	o, _ := top["data"].(map[string]any)
	want := map[string]bool{}
	for _, s := range sel {
		want[s] = true
	}
	got := append(keysOf(o["attributes"]), keysOf(o["relationships"])...)
	sort.Strings(got)
	ws := SortedKeys(want)
	if !reflect.DeepEqual(got, ws) {
		x.Fail("C04:parsed:fields", "URL %s: resource exposes %v, selection is %v", raw, got, ws)
	}
	rels, _ := o["relationships"].(map[string]any)
	for _, n := range SortedKeys(rels) {
		ro, _ := rels[n].(map[string]any)
		_, has := ro["data"]
		want := len(asked) == 1 && asked[0] == n
		if has != want {
			x.Fail("C04:parsed:data-member", "URL %s: relationship %q data member present=%v, the document asks for data of %v", raw, n, has, asked)
		}
	}
	for _, io := range resourceObjects(top) {
		if io["type"] != "u" {
			continue
		}
		irels, _ := io["relationships"].(map[string]any)
		for _, n := range SortedKeys(irels) {
			ro, _ := irels[n].(map[string]any)
			if _, has := ro["data"]; has {
				x.Fail("C04:parsed:data-member", "URL %s: included u resource: relationship %q carries data although RelData has no entry for u", raw, n)
			}
		}
	}
}

// c04Wide: a type with 12 fields (beyond any "short list" fast path) and
// selections of 0..12 names in sorted, reversed and interleaved order.
func c04Wide(x *mc.Exec) {
	soft := x.Choose(2, "impl") == 0
	d := c11Wide
	all := d.fieldNames()
	n := x.Choose(len(all)+1, "selection size")
	order := x.Choose(3, "order")
	start := x.Choose(3, "start")
	var sel []string
	for i := 0; i < n; i++ {
		sel = append(sel, all[(start*5+i*5)%len(all)]) // 5 is coprime with 12: distinct names
	}
	switch order {
	case 0:
		sortStrings(sel)
	case 1:
		sortStrings(sel)
		for i, k := 0, len(sel)-1; i < k; i, k = i+1, k-1 {
			sel[i], sel[k] = sel[k], sel[i]
		}
	}
	rd := [][]string{{}, {"r1"}, {"r2", "r1"}}[x.Choose(3, "reldata")]
	r := d.NewRes(soft)
	r.Set("id", "w1")
	r.Set("r1", "u1")
	r.Set("r2", []string{"u2", "u1"})
	doc := &j.Document{Data: r, RelData: map[string][]string{"w": rd}}
	url := &j.URL{Fragments: []string{"w", "w1"}, ResType: "w", Params: &j.Params{Fields: map[string][]string{"w": append([]string{}, sel...)}, RelData: map[string][]string{}}}
	desc := fmt.Sprintf("%s selection %v reldata %v", implName(soft), sel, rd)
	x.Render(desc)
	x.R.Mark("nontrivial", mc.Hash(desc))
	var out []byte
	var err error
	if p := Try(func() { out, err = j.MarshalDocument(doc, url) }); p != "" || err != nil {
		x.Fail("C04:wide:marshal", "%s: panic %q error %v", desc, p, err)
		return
	}
	x.R.Add("transitions", 1)
	var top map[string]any
	_ = json.Unmarshal(out, &top)
	o, _ := top["data"].(map[string]any)
	want := map[string]bool{}
	for _, s := range sel {
		want[s] = true
	}
	got := append(keysOf(o["attributes"]), keysOf(o["relationships"])...)
	sort.Strings(got)
	if ws := SortedKeys(want); !reflect.DeepEqual(got, ws) {
		x.Fail("C04:wide:fields", "%s: the resource object exposes %v, the selection is %v", desc, got, ws)
	}
	rels, _ := o["relationships"].(map[string]any)
	for _, rn := range []string{"r1", "r2"} {
		ro, present := rels[rn].(map[string]any)
		if !present {
			continue
		}
		asked := false
		for _, a := range rd {
			asked = asked || a == rn
		}
		if _, has := ro["data"]; has != asked {
			x.Fail("C04:wide:data-presence", "%s: relationship %s has data=%v, requested=%v", desc, rn, has, asked)
		}
	}
}

func init() {
	Register(&Prop{
		ID: "C04",
		Rule: "Engine A, all choices Full, complete product: {soft,struct} x 22 selections for type t (all 16 subsets of its 4 fields, unknown name, 'id', duplicates, no entry, nil map, unknown names differing from real ones by case only) x 6 relationship-data requests (4 subsets, unknown name, entry for the other type only) x 4 positions (single primary, Resources member, SoftCollection/WrapperCollection member, included) x 3 selections x 2 data requests for the second type (which shares field names with t); plus every non-empty subset obtained through the URL parser in both orders, each then marshaled as parsed and after Params.Fields[t] was replaced by every subset, x 4 include parameters x 3 relationship-data requests (data members follow the document's request, not the URL's inclusion paths). plus a 12-field type with selections of every size 0..12 in sorted, reversed and interleaved order x 3 data requests. Every document object is first marshaled once with everything selected and all data asked for, then with the selection under test. Oracle: set arithmetic on the decoded JSON of every resource object. Every case is a distinct (selection, request, position) combination",
		Harnesses: []Harness{
			{Name: "C04/doc", Body: c04Body},
			{Name: "C04/parsed", Body: c04Parsed},
			{Name: "C04/wide", Body: c04Wide},
		},
	})
}
