package props

import (
	"fmt"
	"sort"

	j "github.com/mfcochauxlaberge/jsonapi"
)

// FieldNames returns attribute and relationship names of a type, sorted.
func FieldNames(t j.Type) []string {
	var fs []string
	for n := range t.Attrs {
		fs = append(fs, n)
	}
	for n := range t.Rels {
		fs = append(fs, n)
	}
	sort.Strings(fs)
	return fs
}

func RelNames(t j.Type) []string {
	var fs []string
	for n := range t.Rels {
		fs = append(fs, n)
	}
	sort.Strings(fs)
	return fs
}

// AllFieldsURL builds a URL value by hand (no parsing) that selects every
// field of every type of the schema.
func AllFieldsURL(s *j.Schema, fragments ...string) *j.URL {
	u := &j.URL{Fragments: fragments, Params: &j.Params{
		Fields: map[string][]string{}, Attrs: map[string][]j.Attr{}, Rels: map[string][]j.Rel{},
		RelData: map[string][]string{}, SortingRules: []string{}, Include: [][]j.Rel{},
	}}
	for _, t := range s.Types {
		u.Params.Fields[t.Name] = FieldNames(t)
	}
	if len(fragments) > 0 {
		u.ResType = fragments[0]
	}
	if len(fragments) > 1 {
		u.ResID = fragments[1]
	}
	u.IsCol = len(fragments) == 1
	return u
}

// AllRelData asks for the data of every relationship of every type.
func AllRelData(s *j.Schema) map[string][]string {
	m := map[string][]string{}
	for _, t := range s.Types {
		m[t.Name] = RelNames(t)
	}
	return m
}

func sameSet(a, b []string) bool {
	ma, mb := map[string]bool{}, map[string]bool{}
	for _, s := range a {
		ma[s] = true
	}
	for _, s := range b {
		mb[s] = true
	}
	if len(ma) != len(mb) {
		return false
	}
	for s := range ma {
		if !mb[s] {
			return false
		}
	}
	return true
}

// Diff describes one difference between two resources.
type Diff struct {
	What  string // "type", "id", "attr", "to-one", "to-many", "panic", "fields"
	Field string
	Kind  string
	Msg   string
}

// CompareRes is the C01 comparator: same type name, ID, and for every
// attribute and relationship of a (declared by want's type) the same value.
// fields limits the comparison (nil = all fields of want).
func CompareRes(want, got j.Resource, fields []string) (d *Diff) {
	defer func() {
		if r := recover(); r != nil {
			d = &Diff{What: "panic", Msg: fmt.Sprint(r)}
		}
	}()
	if got == nil {
		return &Diff{What: "nil", Msg: "result resource is nil"}
	}
	if w, g := want.GetType().Name, got.GetType().Name; w != g {
		return &Diff{What: "type", Msg: fmt.Sprintf("type name %q became %q", w, g)}
	}
	wid, _ := want.Get("id").(string)
	gid, _ := got.Get("id").(string)
	if wid != gid {
		return &Diff{What: "id", Msg: fmt.Sprintf("id %q became %q", wid, gid)}
	}
	sel := func(n string) bool {
		if fields == nil {
			return true
		}
		for _, f := range fields {
			if f == n {
				return true
			}
		}
		return false
	}
	attrs := want.Attrs()
	for _, n := range SortedKeys(attrs) {
		if !sel(n) {
			continue
		}
		a := attrs[n]
		wv, gv := want.Get(n), got.Get(n)
		if !SameAttrValue(wv, gv) {
			return &Diff{What: "attr", Field: n, Kind: j.GetAttrTypeString(a.Type, a.Nullable),
				Msg: fmt.Sprintf("attribute %q (%s): %s became %s", n, j.GetAttrTypeString(a.Type, a.Nullable), ShowVal(wv), ShowVal(gv))}
		}
	}
	rels := want.Rels()
	for _, n := range SortedKeys(rels) {
		if !sel(n) {
			continue
		}
		r := rels[n]
		if r.ToOne {
			wv, _ := want.Get(n).(string)
			gv, ok := got.Get(n).(string)
			if !ok || wv != gv {
				return &Diff{What: "to-one", Field: n, Msg: fmt.Sprintf("to-one %q: %q became %v", n, wv, got.Get(n))}
			}
		} else {
			wv, _ := want.Get(n).([]string)
			gv, ok := got.Get(n).([]string)
			if !ok || !sameSet(wv, gv) {
				return &Diff{What: "to-many", Field: n, Msg: fmt.Sprintf("to-many %q: %v became %v", n, wv, got.Get(n))}
			}
		}
	}
	return nil
}

// Schema2 builds a schema of the given type descriptions with the given
// realisations (soft[i] selects the soft realisation of ds[i]).
func BuildSchema(ds []TypeD, soft []bool) *j.Schema {
	s := &j.Schema{}
	for i, d := range ds {
		if err := s.AddType(d.Type(soft[i])); err != nil {
			panic(err)
		}
	}
	FixFromOne(s)
	return s
}
