package props

import (
	"encoding/json"
	"fmt"
	"reflect"
	"sort"
	"strings"
	"time"

	j "github.com/mfcochauxlaberge/jsonapi"

	"verif/mc"
)

// C20 — a struct accepted by Check is safe to use everywhere.

type c20GoType struct {
	name   string
	t      reflect.Type
	sample func() any
	kind   int // attribute kind (0 = not an attribute type)
	null   bool
}

func c20GoTypes() []c20GoType {
	ps := func() any { s := "p"; return &s }
	return []c20GoType{
		{"string", reflect.TypeOf(""), func() any { return "v" }, j.AttrTypeString, false},
		{"*int", reflect.TypeOf((*int)(nil)), func() any { i := 7; return &i }, j.AttrTypeInt, true},
		{"[]byte", reflect.TypeOf([]byte{}), func() any { return []byte{1, 2} }, j.AttrTypeBytes, false},
		{"[]string", reflect.TypeOf([]string{}), func() any { return []string{"a", "b"} }, 0, false},
		{"float64", reflect.TypeOf(float64(0)), func() any { return 1.5 }, 0, false},
		// named types whose underlying kind is a supported one
		{"json.Number", reflect.TypeOf(json.Number("")), func() any { return json.Number("1") }, 0, false},
		{"sort.StringSlice", reflect.TypeOf(sort.StringSlice{}), func() any { return sort.StringSlice{"a"} }, 0, false},
		{"int", reflect.TypeOf(int(0)), func() any { return 3 }, j.AttrTypeInt, false},
		{"uint8", reflect.TypeOf(uint8(0)), func() any { return uint8(3) }, j.AttrTypeUint8, false},
		{"*[]byte", reflect.TypeOf((*[]byte)(nil)), func() any { b := []byte{9}; return &b }, j.AttrTypeBytes, true},
		{"time.Time", reflect.TypeOf(time.Time{}), func() any { return TimeAlph[1] }, j.AttrTypeTime, false},
		{"bool", reflect.TypeOf(false), func() any { return true }, j.AttrTypeBool, false},
		{"*string", reflect.TypeOf((*string)(nil)), ps, j.AttrTypeString, true},
		{"map[string]int", reflect.TypeOf(map[string]int{}), func() any { return map[string]int{"a": 1} }, 0, false},
		{"struct{}", reflect.TypeOf(struct{}{}), func() any { return struct{}{} }, 0, false},
		{"*time.Time", reflect.TypeOf((*time.Time)(nil)), func() any { t := TimeAlph[2]; return &t }, j.AttrTypeTime, true},
		{"[]int", reflect.TypeOf([]int{}), func() any { return []int{1} }, 0, false},
		{"time.Duration", reflect.TypeOf(time.Duration(0)), func() any { return time.Second }, 0, false},
		{"json.RawMessage", reflect.TypeOf(json.RawMessage{}), func() any { return json.RawMessage("1") }, 0, false},
	}
}

var (
	c20APITags  = []string{"attr", "rel", "rel,roles", "other", "", "rel,emails,inv", "rel,", "rel,a,b,c", "attr,x", "rel,roles,", "related", "relative,roles"}
	c20JSONTags = []string{"a", "b", "", "id", "ID", "c,omitempty", c20PresentEmpty}
	c20IDs      = []string{"string+tags", "absent", "no-api-tag", "json-not-id", "no-json-tag", "int+tags", "string+tags+dash", "string+tags+declared-last", "named-string-type+tags"}
)

// c20PresentEmpty stands for a json tag that is present but empty (`json:""`), which names nothing, like an absent one
const c20PresentEmpty = "\x00present-empty"

type c20Field struct {
	goType c20GoType
	api    string
	json   string
	// emptyTag: the struct tag carries json:"" instead of no json key at all (json is "" in both cases)
	emptyTag bool
}

var c20Cache = map[string]reflect.Type{}

func c20Struct(idKind int, fields []c20Field) (t reflect.Type, key string) {
	var sf []reflect.StructField
	key = c20IDs[idKind]
	switch idKind {
	case 0:
		sf = append(sf, reflect.StructField{Name: "ID", Type: reflect.TypeOf(""), Tag: `json:"id" api:"things"`})
	case 2:
		sf = append(sf, reflect.StructField{Name: "ID", Type: reflect.TypeOf(""), Tag: `json:"id"`})
	case 3:
		sf = append(sf, reflect.StructField{Name: "ID", Type: reflect.TypeOf(""), Tag: `json:"ident" api:"things"`})
	case 4:
		sf = append(sf, reflect.StructField{Name: "ID", Type: reflect.TypeOf(""), Tag: `api:"things"`})
	case 5:
		sf = append(sf, reflect.StructField{Name: "ID", Type: reflect.TypeOf(int(0)), Tag: `json:"id" api:"things"`})
	case 6:
		sf = append(sf, reflect.StructField{Name: "ID", Type: reflect.TypeOf(""), Tag: `json:"id,omitempty" api:"things"`})
	case 8:
		// an ID of a named type whose underlying kind is string (type Key string)
		sf = append(sf, reflect.StructField{Name: "ID", Type: reflect.TypeOf(json.Number("")), Tag: `json:"id" api:"things"`})
	}
	for i, f := range fields {
		var parts []string
		if f.json != "" {
			parts = append(parts, fmt.Sprintf(`json:%q`, f.json))
		} else if f.emptyTag {
			parts = append(parts, `json:""`)
		}
		if f.api != "" {
			parts = append(parts, fmt.Sprintf(`api:%q`, f.api))
		}
		sf = append(sf, reflect.StructField{Name: fmt.Sprintf("F%d", i), Type: f.goType.t, Tag: reflect.StructTag(strings.Join(parts, " "))})
		key += fmt.Sprintf("|%s %s", f.goType.name, strings.Join(parts, " "))
	}
	if idKind == 7 {
		// the ID field declared after every other field
		sf = append(sf, reflect.StructField{Name: "ID", Type: reflect.TypeOf(""), Tag: `json:"id" api:"things"`})
	}
	if t, ok := c20Cache[key]; ok {
		return t, key
	}
	t = reflect.StructOf(sf)
	c20Cache[key] = t
	return t, key
}

// c20Judge runs the whole contract on one shape.
func c20Judge(x *mc.Exec, idKind int, fields []c20Field) {
	t, key := c20Struct(idKind, fields)
	x.Render(key)
	val := reflect.New(t).Elem().Interface()
	ptr := func() any { return reflect.New(t).Interface() }
	var cerr error
	if p := Try(func() { cerr = j.Check(val) }); p != "" {
		x.Fail("C20:check-panic", "Check panicked on struct {%s}: %s", key, p)
		return
	}
	x.R.Add("transitions", 1)
	x.Observe(key, cerr != nil)

	// why a later failure happened, for narrow signatures
	cause := func() string {
		var cs []string
		if idKind != 0 {
			cs = append(cs, "id:"+c20IDs[idKind])
		}
		seen := map[string]int{}
		for _, f := range fields {
			if f.api == "attr" || f.api == "rel" || strings.HasPrefix(f.api, "rel,") {
				if f.json == "" {
					cs = append(cs, "no-json-tag")
				}
				if f.json == "id" {
					cs = append(cs, "json-id-collision")
				}
				seen[f.json]++
				if seen[f.json] == 2 {
					cs = append(cs, "duplicate-json-tag")
				}
			}
			if f.api == "rel" || f.api == "rel," || f.api == "rel,roles," {
				cs = append(cs, "api:"+f.api)
			}
		}
		if len(cs) == 0 {
			return "well-formed"
		}
		return strings.Join(cs, "+")
	}

	if cerr != nil {
		// rejected: BuildType errors and Wrap refuses, by value and by pointer
		for _, v := range []any{val, ptr()} {
			var berr error
			p := Try(func() { _, berr = j.BuildType(v) })
			if p != "" {
				x.Fail("C20:rejected:buildtype-panic", "Check rejects {%s} (%v) but BuildType panics: %s", key, cerr, p)
			} else if berr == nil {
				x.Fail("C20:rejected:buildtype-accepts", "Check rejects {%s} (%v) but BuildType(%T) succeeds", key, cerr, v)
			}
			if p := Try(func() { j.Wrap(v) }); p == "" {
				x.Fail("C20:rejected:wrap-accepts", "Check rejects {%s} (%v) but Wrap(%T) does not refuse it", key, cerr, v)
			}
			x.R.Add("transitions", 2)
		}
		return
	}
	x.R.Mark("nontrivial", mc.Hash(key))
	x.R.Sample("accepted", key)

	// predicted type, read from the tags independently
	wantAttrs := map[string]j.Attr{}
	wantRels := map[string]j.Rel{}
	declared := 0
	for _, f := range fields {
		switch {
		case f.api == "attr":
			declared++
			wantAttrs[f.json] = j.Attr{Name: f.json, Type: f.goType.kind, Nullable: f.goType.null}
		case f.api == "rel" || strings.HasPrefix(f.api, "rel,"):
			declared++
			parts := strings.Split(f.api, ",")
			r := j.Rel{FromType: "things", FromName: f.json, ToOne: f.goType.name != "[]string"}
			if len(parts) > 1 {
				r.ToType = parts[1]
			}
			if len(parts) > 2 {
				r.ToName = parts[2]
			}
			wantRels[f.json] = r
		}
	}

	fail := func(step, f string, a ...any) {
		x.Fail("C20:accepted:"+step+":"+cause(), "Check accepts {%s} but %s", key, fmt.Sprintf(f, a...))
	}

	for _, byPtr := range []bool{false, true} {
		mk := func() any {
			if byPtr {
				return ptr()
			}
			return val
		}
		how := "by value"
		if byPtr {
			how = "by pointer"
		}
		var typ j.Type
		var berr error
		if p := Try(func() { typ, berr = j.BuildType(mk()) }); p != "" {
			fail("buildtype-panic", "BuildType (%s) panics: %s", how, p)
			return
		}
		if berr != nil {
			fail("buildtype-error", "BuildType (%s) fails: %v", how, berr)
			return
		}
		var w *j.Wrapper
		if p := Try(func() { w = j.Wrap(mk()) }); p != "" {
			fail("wrap-panic", "Wrap (%s) panics: %s", how, p)
			return
		}
		x.R.Add("transitions", 2)
		if typ.Name != "things" {
			fail("type-name", "the built type is named %q, the ID tag says %q", typ.Name, "things")
		}
		if !reflect.DeepEqual(typ.Attrs, wantAttrs) || len(typ.Attrs)+len(typ.Rels) != declared {
			fail("attrs", "the built type has attributes %+v, the tags declare %+v (%d tagged fields)", typ.Attrs, wantAttrs, declared)
		}
		if !reflect.DeepEqual(typ.Rels, wantRels) {
			fail("rels", "the built type has relationships %+v, the tags declare %+v", typ.Rels, wantRels)
		}
		if wt := w.GetType(); wt.Name != typ.Name || !reflect.DeepEqual(w.Attrs(), typ.Attrs) || !reflect.DeepEqual(w.Rels(), typ.Rels) ||
			!reflect.DeepEqual(wt.Attrs, typ.Attrs) || !reflect.DeepEqual(wt.Rels, typ.Rels) {
			fail("wrapper-disagrees", "the wrapper reports type %q attrs %+v rels %+v, BuildType says %q %+v %+v", wt.Name, w.Attrs(), w.Rels(), typ.Name, typ.Attrs, typ.Rels)
		}
		// use it everywhere
		steps := []struct {
			name string
			f    func()
		}{
			{"new", func() { _ = w.New() }},
			{"copy", func() { _ = w.Copy() }},
			{"type-new", func() { _ = typ.New() }},
			{"set-id", func() {
				w.Set("id", "x1")
				if g, _ := w.Get("id").(string); g != "x1" {
					panic(fmt.Sprintf("Get(id) = %v after Set(id, x1)", w.Get("id")))
				}
			}},
			{"get-set-fields", func() {
				for _, f := range fields {
					if f.api != "attr" && f.api != "rel" && !strings.HasPrefix(f.api, "rel,") {
						continue
					}
					v := f.goType.sample()
					w.Set(f.json, v)
					g := w.Get(f.json)
					if !reflect.DeepEqual(g, v) {
						panic(fmt.Sprintf("Get(%q) = %v after Set(%q, %v)", f.json, g, f.json, v))
					}
				}
			}},
			{"marshal", func() {
				_ = j.MarshalResource(w, "", FieldNames(typ), map[string][]string{typ.Name: RelNames(typ)})
			}},
			{"copy-after-set", func() { _ = w.Copy() }},
		}
		for _, s := range steps {
			if p := Try(s.f); p != "" {
				fail(s.name, "%s (%s) panics: %s", s.name, how, p)
				return
			}
			x.R.Add("transitions", 1)
		}
	}
}

func c20Shapes(x *mc.Exec) {
	gts := c20GoTypes()
	pickField := func(full bool) c20Field {
		ng, na, nj := 7, 5, 3
		if full {
			ng, na, nj = len(gts), len(c20APITags), len(c20JSONTags)
		}
		f := c20Field{goType: gts[x.Choose(ng, "go type")], api: c20APITags[x.Choose(na, "api tag")], json: c20JSONTags[x.Choose(nj, "json tag")]}
		if f.json == c20PresentEmpty {
			f.json, f.emptyTag = "", true
		}
		return f
	}
	// first choice = first field (sharding), with a slot for "no field"
	nFields := x.Choose(3, "fields")
	var fields []c20Field
	switch nFields {
	case 1:
		fields = []c20Field{pickField(true)}
	case 2:
		full := Thorough()
		fields = []c20Field{pickField(full), pickField(full)}
	}
	idKind := x.Choose(len(c20IDs), "id field")
	c20Judge(x, idKind, fields)
}

// c20AfterEdits: what Check / BuildType / Wrap say about a struct type does not
// depend on what a program did earlier with the Type value or the maps it
// obtained from another wrapper of the same struct type (a structure cached per
// reflect.Type and handed out by reference would be edited by them).
func c20AfterEdits(x *mc.Exec) {
	gts := c20GoTypes()
	pick := func() c20Field {
		return c20Field{goType: gts[x.Choose(4, "go type")], api: c20APITags[x.Choose(4, "api tag")], json: c20JSONTags[x.Choose(2, "json tag")]}
	}
	fields := []c20Field{pick()}
	if x.Bool("second field") {
		fields = append(fields, pick())
	}
	t, key := c20Struct(0, fields)
	if j.Check(reflect.New(t).Elem().Interface()) != nil {
		return // rejected shapes have no wrapper to edit
	}
	edit := x.Choose(6, "earlier edit")
	names := []string{"Type.RemoveAttr/RemoveRel of every field", "Type.AddAttr(extra)+AddRel(extrarel)", "delete from GetType().Attrs / .Rels", "delete from Attrs() / Rels()", "add to Attrs() / Rels()", "Type.Name = other"}
	if p := Try(func() {
		w := j.Wrap(reflect.New(t).Interface())
		typ := w.GetType()
		switch edit {
		case 0:
			for n := range typ.Attrs {
				typ.RemoveAttr(n)
			}
			for n := range typ.Rels {
				typ.RemoveRel(n)
			}
		case 1:
			_ = typ.AddAttr(j.Attr{Name: "extra", Type: j.AttrTypeString})
			_ = typ.AddRel(j.Rel{FromType: typ.Name, FromName: "extrarel", ToType: "x"})
		case 2:
			for n := range typ.Attrs {
				delete(typ.Attrs, n)
			}
			for n := range typ.Rels {
				delete(typ.Rels, n)
			}
		case 3:
			a, r := w.Attrs(), w.Rels()
			for n := range a {
				delete(a, n)
			}
			for n := range r {
				delete(r, n)
			}
		case 4:
			w.Attrs()["phantom"] = j.Attr{Name: "phantom", Type: j.AttrTypeInt}
			w.Rels()["phantomrel"] = j.Rel{FromType: typ.Name, FromName: "phantomrel", ToType: "x"}
		case 5:
			typ.Name = "other"
		}
	}); p != "" {
		return // what such edits do to the edited wrapper itself is not C20's business
	}
	x.R.Sample("after-edits", names[edit]+" then {"+key+"}")
	c20Judge(x, 0, fields)
}

func c20Three(x *mc.Exec) {
	// three fields over the interesting sub-alphabet (thorough only)
	gts := c20GoTypes()
	pick := func() c20Field {
		return c20Field{goType: gts[x.Choose(4, "go type")], api: c20APITags[x.Choose(4, "api tag")], json: c20JSONTags[x.Choose(3, "json tag")]}
	}
	fields := []c20Field{pick(), pick(), pick()}
	c20Judge(x, x.Choose(2, "id field")*3, fields)
}

func init() {
	Register(&Prop{
		ID: "C20",
		Rule: "Engine A, all choices Full: ALL struct shapes built at run time with reflect.StructOf: 9 ID-field forms (of a named string type, string with tags, absent, no api tag, json tag != id, no json tag, int, json:\"id,omitempty\", declared after the other fields) x 0..2 further fields, each (Go type x api tag x json tag) from 19 Go types (supported, unsupported, pointers, slices, map, struct, named types with a supported underlying kind) x 12 api tags (attr, rel, 'rel,roles', 'rel,emails,inv', none, 'rel,', 'rel,a,b,c', other, 'attr,x', 'rel,roles,', related, 'relative,roles') x 7 json tags (a, b, absent, id, ID, 'c,omitempty', present but empty): every single field (1596), all pairs over the 7x5x3 interesting sub-alphabet in quick and over the full alphabet in thorough (360000 x 7), plus all triples over a 4x4x3 sub-alphabet in thorough; each by value and by pointer. plus every accepted shape of 1..2 fields over a 4x4x2 sub-alphabet judged again after 6 kinds of edits made through the Type value and the maps obtained from an earlier wrapper of the same struct type. Oracle: an independent tag reader predicts the type; if Check accepts: BuildType/Wrap/New/Copy/Type.New/Set+Get of id and of every declared field with a value of its Go type/MarshalResource succeed and built type = predicted type = what the wrapper reports; if Check rejects: BuildType errors and Wrap panics. Non-trivial = accepted shape",
		Harnesses: []Harness{
			{Name: "C20/shapes", Body: c20Shapes},
			{Name: "C20/after-type-edits", Body: c20AfterEdits},
			{Name: "C20/three-fields", Body: c20Three, OnlyTier: "thorough"},
		},
	})
}
