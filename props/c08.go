package props

import (
	"fmt"
	"reflect"
	"strings"

	j "github.com/mfcochauxlaberge/jsonapi"

	"verif/mc"
)

// C08 — URL.String is a canonical form that parses back to the same URL.

// urlView is what must be recovered from String().
type urlView struct {
	Fragments []string
	ResType   string
	ResID     string
	Rel       j.Rel
	Fields    map[string][]string
	Sort      []string
	Page      map[string]any
	Label     string
	Filter    string
	// Fieldless: some selected type has no field at all
	Fieldless bool
}

func viewOf(u *j.URL) urlView {
	v := urlView{Fragments: append([]string{}, u.Fragments...), ResType: u.ResType, ResID: u.ResID, Rel: u.Rel,
		Fields: map[string][]string{}, Sort: append([]string{}, u.Params.SortingRules...), Label: u.Params.FilterLabel}
	for t, fs := range u.Params.Fields {
		if len(fs) == 0 {
			// an empty selection exists only for a type without any field and
			// says the same as no entry
			v.Fieldless = true
			continue
		}
		c := append([]string{}, fs...)
		sortStrings(c)
		v.Fields[t] = c
	}
	if u.IsCol && len(u.Params.Page) > 0 {
		v.Page = map[string]any{}
		for k, val := range u.Params.Page {
			v.Page[k] = val
		}
	}
	if u.Params.Filter != nil {
		v.Filter = canonJSON(u.Params.Filter)
	}
	return v
}

func diffViews(a, b urlView) string {
	switch {
	case !reflect.DeepEqual(a.Fragments, b.Fragments):
		return fmt.Sprintf("fragments %q became %q", a.Fragments, b.Fragments)
	case a.ResType != b.ResType:
		return fmt.Sprintf("restype %q became %q", a.ResType, b.ResType)
	case a.ResID != b.ResID:
		return fmt.Sprintf("resid %q became %q", a.ResID, b.ResID)
	case a.Rel != b.Rel:
		return fmt.Sprintf("relationship %s became %s", showRel(a.Rel), showRel(b.Rel))
	case !reflect.DeepEqual(a.Fields, b.Fields):
		return fmt.Sprintf("fields %v became %v", a.Fields, b.Fields)
	case !reflect.DeepEqual(a.Sort, b.Sort):
		return fmt.Sprintf("sorting %v became %v", a.Sort, b.Sort)
	case !reflect.DeepEqual(a.Page, b.Page) && !(len(a.Page) == 0 && len(b.Page) == 0):
		return fmt.Sprintf("page %v became %v", a.Page, b.Page)
	case a.Label != b.Label:
		return fmt.Sprintf("filter-label %q became %q", a.Label, b.Label)
	case a.Filter != b.Filter:
		return fmt.Sprintf("filter-tree %s became %s", a.Filter, b.Filter)
	}
	return ""
}

// c08Fixpoint checks String() -> parse -> same URL -> same String().
func c08Fixpoint(x *mc.Exec, schema *j.Schema, raw string, u *j.URL) (s1 string, ok bool) {
	v1 := viewOf(u)
	if p := Try(func() { s1 = u.String() }); p != "" {
		x.Fail("C08:string-panic", "String() of the URL parsed from %q panicked: %s", raw, p)
		return "", false
	}
	x.R.Add("transitions", 1)
	// String() must not change what is read from the URL, and is repeatable
	if d := diffViews(v1, viewOf(u)); d != "" {
		x.Fail("C08:string-changed-url:"+strings.SplitN(d, " ", 2)[0], "String() changed the URL parsed from %q: %s", raw, d)
		return s1, false
	}
	var again string
	if p := Try(func() { again = u.String() }); p != "" || again != s1 {
		x.Fail("C08:string-not-repeatable", "String() of the URL parsed from %q gives %q, then %q (panic %q)", raw, s1, again, p)
		return s1, false
	}
	var u2 *j.URL
	var err error
	if p := Try(func() { u2, err = j.NewURLFromRaw(schema, s1) }); p != "" {
		x.Fail("C08:reparse-panic", "parsing String()=%q (of %q) panicked: %s", s1, raw, p)
		return s1, false
	}
	x.R.Add("transitions", 1)
	if err != nil {
		x.Fail("C08:reparse-rejected:"+c08Class(raw, v1), "String() of %q is %q, which the parser rejects: %v", raw, s1, err)
		return s1, false
	}
	v2 := viewOf(u2)
	if d := diffViews(v1, v2); d != "" {
		x.Fail("C08:reparse-differs:"+strings.SplitN(d, " ", 2)[0]+":"+c08Class(raw, v1), "String() of %q is %q, which parses to a different URL: %s", raw, s1, d)
		return s1, false
	}
	var s2 string
	if p := Try(func() { s2 = u2.String() }); p != "" || s2 != s1 {
		x.Fail("C08:not-a-fixpoint:"+c08Class(raw, v1), "String() of %q is %q but String() of its re-parse is %q (panic %q)", raw, s1, s2, p)
		return s1, false
	}
	return s1, true
}

// c08Class names what in the URL needs escaping (for narrow signatures).
func c08Class(raw string, v urlView) string {
	reserved := func(s string) bool { return strings.ContainsAny(s, " &?#%+/=,\"\\") }
	var cls []string
	for _, f := range v.Fragments {
		if reserved(f) {
			cls = append(cls, "reserved-in-path")
			break
		}
	}
	if reserved(v.Label) {
		cls = append(cls, "reserved-in-filter-label")
	}
	if v.Filter != "" {
		cls = append(cls, "filter-tree")
	}
	for k, val := range v.Page {
		if reserved(k) || reserved(fmt.Sprint(val)) {
			cls = append(cls, "reserved-in-page")
			break
		}
	}
	for k := range v.Page {
		if k != "number" && k != "size" {
			cls = append(cls, "other-page-key")
			break
		}
	}
	if v.Fieldless {
		return "fieldless-type-selected"
	}
	if len(cls) == 0 {
		return "plain"
	}
	return strings.Join(cls, "+")
}

func rawOf(path string, params []qParam) string {
	raw := path
	for i, p := range params {
		if i == 0 {
			raw += "?"
		} else {
			raw += "&"
		}
		raw += strings.NewReplacer("[", "%5B", "]", "%5D").Replace(p.name) + "=" + p.val
	}
	return raw
}

// c08Long: URLs whose canonical form is much longer than what was parsed (characters that are legal
// unescaped in a raw URL and that String() percent-encodes, selections spelled out in full): a
// limit applied to the one must not refuse the other.
func c08Long(x *mc.Exec) {
	soft := x.Bool("soft")
	schema := urlSchema(soft)
	n := []int{10, 100, 170, 171, 250, 400, 1000}[x.Choose(7, "repetitions")]
	chunk := []string{":@", "/?", "~x", "%22%7B"}[x.Choose(4, "characters")]
	long := strings.Repeat(chunk, n)
	where := x.Choose(5, "where")
	raw := []string{
		"/a?filter=" + long,
		"/a/" + strings.ReplaceAll(strings.ReplaceAll(long, "/", ":"), "?", "@"),
		"/a?page%5Bcursor%5D=" + long,
		"/a?include=r.s.t,rr.s,ab.ab.r&filter=" + long + "&page%5Bsize%5D=3",
		"/cs?sort=-Nn,N&page%5B" + strings.ReplaceAll(strings.ReplaceAll(long, "/", ":"), "?", "@") + "%5D=1",
	}[where]
	x.Render(fmt.Sprintf("%d x %q at position %d (%d bytes)", n, chunk, where, len(raw)))
	u, err, pmsg, _ := ParseURL(x, schema, raw, false)
	x.R.Add("transitions", 1)
	if pmsg != "" || err != nil || u == nil {
		return // C07's business
	}
	x.R.Mark("nontrivial", mc.Hash(raw, soft))
	c08Fixpoint(x, schema, raw, u)
}

// c08OtherSchema: the canonical form depends on the schema given to THIS parse only. A second
// schema declares the same type names with as many attributes under other names (another
// service, or the same schema after RemoveAttr + AddAttr); URLs that leave sort / fields to
// their defaults are parsed against the two alternately.
func c08OtherSchema(x *mc.Exec) {
	soft := x.Bool("soft")
	a := urlSchema(soft)
	var tds []TypeD
	for _, d := range urlTypes {
		nd := TypeD{Name: d.Name, Rels: d.Rels}
		for _, at := range d.Attrs {
			nd.Attrs = append(nd.Attrs, AttrD{"o" + at.Name, at.K})
		}
		tds = append(tds, nd)
	}
	flags := make([]bool, len(tds))
	for i := range flags {
		flags[i] = soft
	}
	b := BuildSchema(tds, flags)
	raws := []string{"/a", "/b", "/one", "/cs", "/a?page%5Bsize%5D=2", "/a/1/rr", "/a?include=r", "/c/1/t", "/none", "/a?filter=lbl"}
	raw := raws[x.Choose(len(raws), "url")]
	order := [][]*j.Schema{{a, b}, {b, a}, {a, b, a}}[x.Choose(3, "order")]
	x.Render(raw)
	x.R.Mark("nontrivial", mc.Hash(raw, x.Choices()))
	for i, sc := range order {
		u, err, pmsg, _ := ParseURL(x, sc, raw, false)
		if pmsg != "" || err != nil || u == nil {
			x.Fail("C08:other-schema:rejected", "parse %d of %q: panic %q error %v", i+1, raw, pmsg, err)
			return
		}
		// the defaults are the given schema's attributes
		st := sc.GetType(u.ResType)
		for _, r := range u.Params.SortingRules {
			n := strings.TrimPrefix(r, "-")
			if _, ok := st.Attrs[n]; !ok && n != "id" {
				x.Fail("C08:other-schema:foreign-sorting-rule", "parse %d of %q: sorting rule %q is not an attribute of type %q in the schema given to this parse (attributes %v)", i+1, raw, r, st.Name, SortedKeys(st.Attrs))
				return
			}
		}
		if _, ok := c08Fixpoint(x, sc, raw, u); !ok {
			return
		}
	}
}

// the C07 space: fixpoint + permutation invariance
func c08Space(x *mc.Exec) {
	max := 2
	if Thorough() {
		max = 3
	}
	// thorough: on four paths a third parameter from the reduced menu (one instance per parameter name)
	raw, params, path := GenURLOpt(x, max, 2, 1, true)
	soft := len(x.Choices())%2 == 0
	schema := urlSchema(soft)
	x.Render(raw)
	u, err, pmsg, _ := ParseURL(x, schema, raw, false)
	if pmsg != "" || err != nil || u == nil {
		return // C07's business
	}
	x.R.Mark("nontrivial", mc.Hash(raw, soft))
	x.R.Sample(fmt.Sprintf("accepted-%d", len(params)), raw)
	s1, ok := c08Fixpoint(x, schema, raw, u)
	x.Observe(raw, s1, ok)
	if !ok {
		return
	}
	// the order in which the parser visits the parameters is the runtime's choice
	if len(params) == 2 {
		ud, derr, dp, _ := ParseURL(x, schema, raw, true)
		x.R.Add("transitions", 1)
		if dp != "" || derr != nil || ud == nil {
			x.Fail("C08:visit-order:rejected", "%q is accepted when its parameters are visited in sorted order and not in the order %v (%v %s)", raw, x.Choices(), derr, dp)
			return
		}
		var sd string
		if p := Try(func() { sd = ud.String() }); p != "" || sd != s1 {
			x.Fail("C08:visit-order:string-differs", "%q: String() depends on the order in which the parser visits the parameters:\n  %q\n  %q (panic %q)", raw, s1, sd, p)
			return
		}
	}
	// order of differently named parameters, order inside fields/include lists, empty items
	var variants []string
	names := map[string]bool{}
	distinct := true
	for _, p := range params {
		if names[p.name] {
			distinct = false
		}
		names[p.name] = true
	}
	if distinct && len(params) >= 2 {
		var perm func(cur []qParam, rest []qParam)
		perm = func(cur, rest []qParam) {
			if len(rest) == 0 {
				variants = append(variants, rawOf(path, cur))
				return
			}
			for i := range rest {
				nr := append(append([]qParam{}, rest[:i]...), rest[i+1:]...)
				perm(append(append([]qParam{}, cur...), rest[i]), nr)
			}
		}
		perm(nil, params)
	}
	for i, p := range params {
		if strings.HasPrefix(p.name, "fields[") || p.name == "include" {
			items := strings.Split(p.val, ",")
			rev := make([]string, len(items))
			for k := range items {
				rev[len(items)-1-k] = items[k]
			}
			for _, nv := range []string{strings.Join(rev, ","), "," + strings.Join(items, ",,") + ","} {
				np := append([]qParam{}, params...)
				np[i] = qParam{p.name, nv}
				variants = append(variants, rawOf(path, np))
			}
		}
	}
	for _, vr := range variants {
		if vr == raw {
			continue
		}
		uv, err, pmsg, _ := ParseURL(x, schema, vr, false)
		x.R.Add("transitions", 1)
		if pmsg != "" || err != nil {
			// reordering names inside a list cannot turn an accepted URL into a rejected one
			x.Fail("C08:variant-rejected", "%q is accepted but its reordering %q is rejected (%v %s)", raw, vr, err, pmsg)
			continue
		}
		var sv string
		if p := Try(func() { sv = uv.String() }); p != "" || sv != s1 {
			x.Fail("C08:order-dependent:"+c08Class(raw, viewOf(u)), "%q and its reordering %q have different String():\n  %q\n  %q (panic %q)", raw, vr, s1, sv, p)
		}
	}
}

// reserved characters in ids, page values, filter labels and filter strings; nested filter trees
func c08Reserved(x *mc.Exec) {
	specials := []string{"a b", "a%26b", "a%3Fb", "a%23b", "a%25b", "a%2Bb", "a%2Fb", "a+b", "a%3Db", "a%2Cb", "%C3%A9", "a%20b%26c%3Dd",
		// blank-only and blank-padded values are values like any other
		" ", "%09", " a "}
	where := x.Choose(6, "where")
	sp := specials[x.Choose(len(specials), "special")]
	soft := x.Choose(2, "schema") == 0
	schema := urlSchema(soft)
	raw := ""
	switch where {
	case 0:
		raw = "/a/" + strings.ReplaceAll(sp, " ", "%20")
	case 1:
		raw = "/a/" + strings.ReplaceAll(sp, " ", "%20") + "/rr?sort=x"
	case 2:
		raw = "/a?page%5Bsize%5D=" + strings.ReplaceAll(sp, " ", "%20") + "&page%5Bnumber%5D=1"
	case 3:
		raw = "/a?filter=" + strings.ReplaceAll(sp, " ", "%20")
	case 4:
		raw = `/a?filter=%7B%22f%22%3A%22x%22%2C%22o%22%3A%22%3D%22%2C%22v%22%3A%22` + strings.ReplaceAll(sp, " ", "%20") + `%22%7D`
	case 5:
		raw = "/a?page%5B" + strings.ReplaceAll(sp, " ", "%20") + "%5D=7"
	}
	x.Render(raw)
	u, err, pmsg, _ := ParseURL(x, schema, raw, false)
	if pmsg != "" || err != nil || u == nil {
		return
	}
	x.R.Mark("nontrivial", mc.Hash(raw, soft))
	x.R.Sample("reserved", raw)
	s1, ok := c08Fixpoint(x, schema, raw, u)
	x.Observe(raw, s1, ok)
}

func c08Trees(x *mc.Exec) {
	// and/or filter trees of depth <= 3 over two leaves, through the URL
	// quick: depth <= 2, a collation choice on every operator node (3726 trees); thorough adds the
	// trees of depth <= 3 whose collation choice is at the root only (1.2 million)
	depth, colEverywhere := 2, true
	if Thorough() && x.Bool("depth 3") {
		depth, colEverywhere = 3, false
	}
	var build func(dep int) string
	build = func(dep int) string {
		n := 4
		if dep == 0 {
			n = 2
		}
		switch x.Choose(n, "node") {
		case 0:
			return `{"f":"x","o":"=","v":"a b&c"}`
		case 1:
			return `{"f":"y","o":"<","v":5}`
		case 2:
			k := x.Choose(3, "fan")
			col := ""
			if colEverywhere || dep == depth {
				col = []string{"", `,"c":"en"`}[x.Choose(2, "collation")]
			}
			kids := []string{}
			for i := 0; i < k; i++ {
				kids = append(kids, build(dep-1))
			}
			return `{"o":"and","v":[` + strings.Join(kids, ",") + `]` + col + `}`
		default:
			k := x.Choose(3, "fan")
			col := ""
			if colEverywhere || dep == depth {
				col = []string{"", `,"c":"en"`}[x.Choose(2, "collation")]
			}
			kids := []string{}
			for i := 0; i < k; i++ {
				kids = append(kids, build(dep-1))
			}
			return `{"o":"or","v":[` + strings.Join(kids, ",") + `]` + col + `}`
		}
	}
	tree := build(depth)
	esc := strings.NewReplacer("{", "%7B", "}", "%7D", "\"", "%22", " ", "%20", "&", "%26", "[", "%5B", "]", "%5D", "<", "%3C", ",", "%2C", ":", "%3A", "=", "%3D").Replace(tree)
	raw := "/a?filter=" + esc
	schema := urlSchema(true)
	x.Render(raw)
	u, err, pmsg, _ := ParseURL(x, schema, raw, false)
	if pmsg != "" || err != nil || u == nil {
		x.Fail("C08:tree-rejected", "filter tree %s rejected: %v %s", tree, err, pmsg)
		return
	}
	x.R.Mark("nontrivial", mc.Hash(tree))
	x.R.Sample("tree", tree)
	c08Fixpoint(x, schema, raw, u)
}

func init() {
	Register(&Prop{
		ID: "C08",
		Rule: "Engine A, all choices Full: every URL of the C07 query space (17 paths x ordered sequences of 0..2 parameters, thorough: plus, on four representative paths, a third one out of one instance per parameter name, from the ~120-instance menu incl. and/or operators in other letter cases and a type whose field names differ by case only) that the parser accepts; ids, page values, page keys, filter labels and filter strings containing each of 15 reserved-character samples (space & ? # % + / = , non-ASCII, blank-only and blank-padded values) at 6 positions; every and/or filter tree of depth <= 2 and fan-out <= 2 with and without a collation on each operator node (thorough: plus depth 3 with the collation choice at the root). Oracle: String() parses, the re-parsed URL has the same fragments, type, id, relationship, field selection, sorting rules, page map (collection URLs), filter label / canonical filter JSON, and its String() is the same text; String() itself changes nothing read from the URL and is repeatable; every permutation of differently named parameters, reversal of fields/include lists and insertion of empty items yields the same String(). Non-trivial = accepted URL",
		Assumptions: []string{"'page parameters' = the whole Page map of a collection URL"},
		Harnesses: []Harness{
			{Name: "C08/space", Body: c08Space, Dev: func() int { return 1 }},
			{Name: "C08/reserved", Body: c08Reserved},
			{Name: "C08/trees", Body: c08Trees, ShardDepth: 6},
			{Name: "C08/other-schema", Body: c08OtherSchema},
			{Name: "C08/long", Body: c08Long},
		},
	})
}
