package props

import (
	"fmt"

	j "github.com/mfcochauxlaberge/jsonapi"

	"verif/mc"
)

// WithMapDev runs f with the map-iteration order of every instrumented
// `range <map>` loop (with >= 2 keys) under explorer control: each loop
// instance is a deviation-bounded choice among the orders of mc.PermCount.
// On the stub build (original sources) the hook is inert.
func WithMapDev(x *mc.Exec, f func()) { WithMapDevIn(x, nil, f) }

// WithMapDevIn is WithMapDev restricted to the loops of the named functions
// (nil = all); other loops run in sorted order.
func WithMapDevIn(x *mc.Exec, funcs map[string]bool, f func()) {
	loops := 0
	j.McInstall(&j.McHooks{MapOrder: func(site, n int) []int {
		if funcs != nil && (site >= len(j.McSites) || !funcs[j.McSites[site].Func]) {
			return nil
		}
		loops++
		idx := x.Dev(mc.PermCount(n), fmt.Sprintf("map@%d/%d", site, n))
		if idx == 0 {
			return nil
		}
		return mc.Perm(n, idx)
	}})
	defer j.McInstall(nil)
	f()
	x.R.Add("map_loop_instances", int64(loops))
}

// WithMapUniform runs f with every map loop using the same uniform schedule:
// 0 sorted, 1 reversed, 2 rotated by one.
func WithMapUniform(mode int, f func()) {
	if mode == 0 {
		f()
		return
	}
	j.McInstall(&j.McHooks{MapOrder: func(site, n int) []int {
		p := make([]int, n)
		for i := range p {
			if mode == 1 {
				p[i] = n - 1 - i
			} else {
				p[i] = (i + 1) % n
			}
		}
		return p
	}})
	defer j.McInstall(nil)
	f()
}
