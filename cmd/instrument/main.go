// Command instrument rewrites the non-test sources of the jsonapi root package
// (read from the current working tree, never modified) into a scratch
// directory and emits go-build overlay files:
//
//	full.json  rewritten sources + hook file: every `for ... range <map>` asks
//	           the installed explorer for an iteration order (sorted keys by
//	           default) and mcYield(site) precedes every statement.
//	stub.json  original sources + a hook file with the same API and inert hooks.
//
// Usage: instrument -repo /repo -out <scratch dir>
package main

import (
	"bytes"
	"encoding/json"
	"flag"
	"fmt"
	"go/ast"
	"go/build"
	"go/format"
	"go/importer"
	"go/parser"
	"go/token"
	"go/types"
	"os"
	"path/filepath"
	"sort"
	"strings"
)

type site struct {
	File string `json:"file"`
	Line int    `json:"line"`
	Func string `json:"func"`
	Kind string `json:"kind"` // "yield" | "range"
}

type report struct {
	Files               []string `json:"files"`
	UninstrumentedFiles []string `json:"uninstrumented_files"`
	YieldSites          int      `json:"yield_sites"`
	RangeSites          int      `json:"range_sites"`
	Sites               []site   `json:"sites"`
}

var (
	fset  = token.NewFileSet()
	sites []site
	info  *types.Info
)

func main() {
	repo := flag.String("repo", "/repo", "repository root")
	out := flag.String("out", "", "output directory")
	target := flag.String("target", "", "directory the Go build sees (overlay keys); default = -repo")
	flag.Parse()
	if *target == "" {
		*target = *repo
	}

	if *out == "" {
		fatal("missing -out")
	}

	must(os.MkdirAll(filepath.Join(*out, "full"), 0o755))
	must(os.MkdirAll(filepath.Join(*out, "stub"), 0o755))

	ctx := build.Default
	ctx.CgoEnabled = false
	pkg, err := ctx.ImportDir(*repo, 0)
	if err != nil {
		fatal("import %s: %v", *repo, err)
	}

	names := append([]string{}, pkg.GoFiles...)
	sort.Strings(names)

	var files []*ast.File

	for _, n := range names {
		// Comments are dropped on purpose (format.Node misplaces them after
		// AST surgery); build constraints were honoured by go/build above.
		f, err := parser.ParseFile(fset, filepath.Join(*repo, n), nil, parser.SkipObjectResolution)
		if err != nil {
			fatal("parse %s: %v", n, err)
		}
		files = append(files, f)
	}

	info = &types.Info{Types: map[ast.Expr]types.TypeAndValue{}}
	conf := types.Config{
		Importer: importer.ForCompiler(fset, "source", nil),
		Error:    func(error) {},
	}
	_, terr := conf.Check(pkg.ImportPath, fset, files, info)

	rep := report{Files: names}
	full := map[string]string{}

	for i, f := range files {
		name := names[i]
		ok := terr == nil && !hasDirectives(filepath.Join(*repo, name))

		var buf bytes.Buffer

		if ok {
			func() {
				defer func() {
					if r := recover(); r != nil {
						ok = false
					}
				}()
				before := len(sites)
				rewriteFile(f, name)
				buf.WriteString("//go:build go1.18\n\n")
				if err := format.Node(&buf, fset, f); err != nil {
					ok = false
					sites = sites[:before]
				}
			}()
		}

		if !ok {
			rep.UninstrumentedFiles = append(rep.UninstrumentedFiles, name)
			if *target != *repo {
				full[filepath.Join(*target, name)] = filepath.Join(*repo, name)
			}
			continue
		}

		dst := filepath.Join(*out, "full", name)
		must(os.WriteFile(dst, buf.Bytes(), 0o644))
		full[filepath.Join(*target, name)] = dst
	}

	for _, s := range sites {
		if s.Kind == "range" {
			rep.RangeSites++
		} else {
			rep.YieldSites++
		}
	}
	rep.Sites = sites

	// Hook files.
	hookFull := filepath.Join(*out, "full", "zz_mc_hooks.go")
	must(os.WriteFile(hookFull, []byte(hookSource(true)), 0o644))
	full[filepath.Join(*target, "zz_mc_hooks.go")] = hookFull

	hookStub := filepath.Join(*out, "stub", "zz_mc_hooks.go")
	must(os.WriteFile(hookStub, []byte(hookSource(false)), 0o644))
	stub := map[string]string{filepath.Join(*target, "zz_mc_hooks.go"): hookStub}
	if *target != *repo {
		for _, n := range names {
			stub[filepath.Join(*target, n)] = filepath.Join(*repo, n)
		}
	}

	writeJSON(filepath.Join(*out, "full.json"), map[string]any{"Replace": full})
	writeJSON(filepath.Join(*out, "stub.json"), map[string]any{"Replace": stub})
	writeJSON(filepath.Join(*out, "report.json"), rep)

	fmt.Printf("instrument: %d files, %d yield sites, %d map-range sites, %d uninstrumented\n",
		len(names), rep.YieldSites, rep.RangeSites, len(rep.UninstrumentedFiles))
}

func hasDirectives(path string) bool {
	b, err := os.ReadFile(path)
	if err != nil {
		return true
	}
	s := string(b)
	return strings.Contains(s, "\n//go:linkname") || strings.Contains(s, "\n//go:embed") ||
		strings.Contains(s, "\nimport \"C\"") || strings.Contains(s, "\n//go:generate")
}

func newSite(pos token.Pos, fn, kind string, file string) int {
	p := fset.Position(pos)
	sites = append(sites, site{File: file, Line: p.Line, Func: fn, Kind: kind})
	return len(sites) - 1
}

func rewriteFile(f *ast.File, name string) {
	for _, d := range f.Decls {
		fd, ok := d.(*ast.FuncDecl)
		if !ok || fd.Body == nil {
			continue
		}
		fn := fd.Name.Name
		if fd.Recv != nil && len(fd.Recv.List) == 1 {
			fn = "(" + types.ExprString(fd.Recv.List[0].Type) + ")." + fn
		}
		r := &rewriter{fn: fn, file: name}
		r.block(fd.Body)
	}
}

type rewriter struct {
	fn   string
	file string
	tmp  int
}

func (r *rewriter) yield(pos token.Pos) ast.Stmt {
	id := newSite(pos, r.fn, "yield", r.file)
	return &ast.ExprStmt{X: &ast.CallExpr{
		Fun:  ast.NewIdent("mcYield"),
		Args: []ast.Expr{&ast.BasicLit{Kind: token.INT, Value: fmt.Sprint(id)}},
	}}
}

// list instruments a statement list: recurse into each statement first, then
// put a yield in front of it.
func (r *rewriter) list(in []ast.Stmt) []ast.Stmt {
	out := make([]ast.Stmt, 0, 2*len(in))
	for _, s := range in {
		pos := s.Pos()
		s = r.stmt(s)
		out = append(out, r.yield(pos), s)
	}
	return out
}

func (r *rewriter) block(b *ast.BlockStmt) {
	if b == nil {
		return
	}
	b.List = r.list(b.List)
}

// clauses instruments the bodies of case/comm clauses of a switch/select body
// without putting anything between the clauses.
func (r *rewriter) clauses(b *ast.BlockStmt) {
	for _, c := range b.List {
		switch c := c.(type) {
		case *ast.CaseClause:
			r.exprs(c.List)
			c.Body = r.list(c.Body)
		case *ast.CommClause:
			c.Body = r.list(c.Body)
		}
	}
}

func (r *rewriter) stmt(s ast.Stmt) ast.Stmt {
	switch s := s.(type) {
	case *ast.BlockStmt:
		r.block(s)
	case *ast.IfStmt:
		r.expr(s.Cond)
		if s.Init != nil {
			r.stmtExprs(s.Init)
		}
		r.block(s.Body)
		if s.Else != nil {
			s.Else = r.stmt(s.Else)
		}
	case *ast.ForStmt:
		if s.Init != nil {
			r.stmtExprs(s.Init)
		}
		if s.Cond != nil {
			r.expr(s.Cond)
		}
		if s.Post != nil {
			r.stmtExprs(s.Post)
		}
		r.block(s.Body)
	case *ast.RangeStmt:
		r.expr(s.X)
		r.block(s.Body) // yields first ...
		return r.rangeStmt(s) // ... then the range rewrite (prologue not interleavable)
	case *ast.SwitchStmt:
		if s.Init != nil {
			r.stmtExprs(s.Init)
		}
		if s.Tag != nil {
			r.expr(s.Tag)
		}
		r.clauses(s.Body)
	case *ast.TypeSwitchStmt:
		if s.Init != nil {
			r.stmtExprs(s.Init)
		}
		r.stmtExprs(s.Assign)
		r.clauses(s.Body)
	case *ast.SelectStmt:
		r.clauses(s.Body)
	case *ast.LabeledStmt:
		s.Stmt = r.stmt(s.Stmt)
	default:
		r.stmtExprs(s)
	}
	return s
}

// stmtExprs visits function literals inside simple statements.
func (r *rewriter) stmtExprs(s ast.Stmt) {
	ast.Inspect(s, func(n ast.Node) bool {
		if fl, ok := n.(*ast.FuncLit); ok {
			r.block(fl.Body)
			return false
		}
		return true
	})
}

func (r *rewriter) expr(e ast.Expr) {
	if e == nil {
		return
	}
	ast.Inspect(e, func(n ast.Node) bool {
		if fl, ok := n.(*ast.FuncLit); ok {
			r.block(fl.Body)
			return false
		}
		return true
	})
}

func (r *rewriter) exprs(es []ast.Expr) {
	for _, e := range es {
		r.expr(e)
	}
}

func isBlank(e ast.Expr) bool {
	id, ok := e.(*ast.Ident)
	return e == nil || (ok && id.Name == "_")
}

// rangeStmt rewrites `for k, v := range M { B }` over a map M into
//
//	for _, mcE := range mcRange(site, M) {
//	    v, mcOk := mcE.Get(); if !mcOk { continue }   // key deleted meanwhile
//	    k := mcE.K
//	    B
//	}
func (r *rewriter) rangeStmt(s *ast.RangeStmt) ast.Stmt {
	tv, ok := info.Types[s.X]
	if !ok || tv.Type == nil {
		return s
	}
	if _, isMap := tv.Type.Underlying().(*types.Map); !isMap {
		return s
	}

	id := newSite(s.Pos(), r.fn, "range", r.file)
	r.tmp++
	ent := ast.NewIdent(fmt.Sprintf("mcE%d", r.tmp))
	okID := ast.NewIdent(fmt.Sprintf("mcOk%d", r.tmp))

	tok := s.Tok
	if tok == token.ILLEGAL { // `for range M`
		tok = token.DEFINE
	}

	var pro []ast.Stmt

	valLHS := ast.Expr(ast.NewIdent("_"))
	if !isBlank(s.Value) {
		valLHS = s.Value
	}

	if tok == token.DEFINE {
		pro = append(pro, &ast.AssignStmt{
			Lhs: []ast.Expr{valLHS, okID},
			Tok: token.DEFINE,
			Rhs: []ast.Expr{&ast.CallExpr{Fun: &ast.SelectorExpr{X: ent, Sel: ast.NewIdent("Get")}}},
		})
	} else {
		// assignment form: ok must be declared, value assigned
		tmpV := ast.NewIdent(fmt.Sprintf("mcV%d", r.tmp))
		pro = append(pro, &ast.AssignStmt{
			Lhs: []ast.Expr{tmpV, okID},
			Tok: token.DEFINE,
			Rhs: []ast.Expr{&ast.CallExpr{Fun: &ast.SelectorExpr{X: ent, Sel: ast.NewIdent("Get")}}},
		})
		if !isBlank(s.Value) {
			pro = append(pro, &ast.AssignStmt{Lhs: []ast.Expr{s.Value}, Tok: token.ASSIGN, Rhs: []ast.Expr{tmpV}})
		} else {
			pro = append(pro, &ast.AssignStmt{Lhs: []ast.Expr{ast.NewIdent("_")}, Tok: token.ASSIGN, Rhs: []ast.Expr{tmpV}})
		}
	}

	pro = append(pro, &ast.IfStmt{
		Cond: &ast.UnaryExpr{Op: token.NOT, X: okID},
		Body: &ast.BlockStmt{List: []ast.Stmt{&ast.BranchStmt{Tok: token.CONTINUE}}},
	})

	if !isBlank(s.Key) {
		pro = append(pro, &ast.AssignStmt{
			Lhs: []ast.Expr{s.Key},
			Tok: tok,
			Rhs: []ast.Expr{&ast.SelectorExpr{X: ent, Sel: ast.NewIdent("K")}},
		})
		if tok == token.DEFINE {
			pro = append(pro, &ast.AssignStmt{Lhs: []ast.Expr{ast.NewIdent("_")}, Tok: token.ASSIGN, Rhs: []ast.Expr{s.Key}})
		}
	}

	if tok == token.DEFINE && !isBlank(s.Value) {
		pro = append(pro, &ast.AssignStmt{Lhs: []ast.Expr{ast.NewIdent("_")}, Tok: token.ASSIGN, Rhs: []ast.Expr{s.Value}})
	}

	body := &ast.BlockStmt{List: append(pro, s.Body.List...)}

	return &ast.RangeStmt{
		Key:   ast.NewIdent("_"),
		Value: ent,
		Tok:   token.DEFINE,
		X: &ast.CallExpr{
			Fun:  ast.NewIdent("mcRange"),
			Args: []ast.Expr{&ast.BasicLit{Kind: token.INT, Value: fmt.Sprint(id)}, s.X},
		},
		Body: body,
	}
}

func hookSource(full bool) string {
	var b strings.Builder
	b.WriteString("//go:build go1.18\n\npackage jsonapi\n\n")
	b.WriteString(`import (
	"fmt"
	"os"
	"sort"
)

// McHooks is installed by the verification harness (check-time overlay only).
type McHooks struct {
	// Yield is called before every statement of the instrumented package.
	Yield func(site int)
	// MapOrder is asked, for every execution of a map-range loop with n >= 2
	// keys, for a permutation of 0..n-1 applied to the sorted key list
	// (nil = sorted order).
	MapOrder func(site int, n int) []int
}

var mcHooks *McHooks

// McInstall installs (or, with nil, removes) the hooks.
func McInstall(h *McHooks) { mcHooks = h }

// VERIF_MC_UNIFORM=reverse|rotate installs a uniform map schedule at start-up;
// used to run the repository's own test suite on the instrumented build under
// other iteration orders (conformance of the instrumentation).
func init() {
	switch os.Getenv("VERIF_MC_UNIFORM") {
	case "reverse":
		mcHooks = &McHooks{MapOrder: func(site, n int) []int {
			p := make([]int, n)
			for i := range p {
				p[i] = n - 1 - i
			}
			return p
		}}
	case "rotate":
		mcHooks = &McHooks{MapOrder: func(site, n int) []int {
			p := make([]int, n)
			for i := range p {
				p[i] = (i + 1 + site) % n
			}
			return p
		}}
	}
}

`)
	if full {
		b.WriteString("// McInstrumented reports whether the package was rewritten.\nconst McInstrumented = true\n\n")
	} else {
		b.WriteString("// McInstrumented reports whether the package was rewritten.\nconst McInstrumented = false\n\n")
	}

	b.WriteString(`type McSite struct {
	File string
	Line int
	Func string
	Kind string
}

// McSites describes the instrumentation sites (index = site id).
var McSites = []McSite{
`)
	if full {
		for _, s := range sites {
			fmt.Fprintf(&b, "\t{%q, %d, %q, %q},\n", s.File, s.Line, s.Func, s.Kind)
		}
	}
	b.WriteString(`}

func mcYield(site int) {
	if h := mcHooks; h != nil && h.Yield != nil {
		h.Yield(site)
	}
}

type mcEntry[K comparable, V any] struct {
	K K
	m map[K]V
}

// Get re-reads the map at visit time: a key deleted since the loop started is
// skipped, which is exactly the latitude the Go specification gives.
func (e mcEntry[K, V]) Get() (V, bool) {
	v, ok := e.m[e.K]
	return v, ok
}

func mcRange[M ~map[K]V, K comparable, V any](site int, m M) []mcEntry[K, V] {
	keys := make([]K, 0, len(m))
	for k := range m {
		keys = append(keys, k)
	}
	if len(keys) >= 2 {
		if ks, ok := any(keys).([]string); ok {
			sort.Strings(ks)
		} else {
			sort.Slice(keys, func(i, j int) bool { return mcKeyLess(keys[i], keys[j]) })
		}
	}
	out := make([]mcEntry[K, V], len(keys))
	var perm []int
	if h := mcHooks; h != nil && h.MapOrder != nil && len(keys) >= 2 {
		perm = h.MapOrder(site, len(keys))
	}
	for i := range keys {
		j := i
		if perm != nil {
			j = perm[i]
		}
		out[i] = mcEntry[K, V]{K: keys[j], m: m}
	}
	return out
}

func mcKeyLess(a, b interface{}) bool {
	if sa, ok := a.(string); ok {
		return sa < b.(string)
	}
	return fmt.Sprint(a) < fmt.Sprint(b)
}
`)
	return b.String()
}

func writeJSON(path string, v any) {
	b, err := json.MarshalIndent(v, "", " ")
	must(err)
	must(os.WriteFile(path, b, 0o644))
}

func must(err error) {
	if err != nil {
		fatal("%v", err)
	}
}

func fatal(f string, a ...any) {
	fmt.Fprintf(os.Stderr, "instrument: "+f+"\n", a...)
	os.Exit(2)
}
