// Command runner executes the harnesses of one property.
//
//	runner <Cxx> <quick|thorough>                 parent: shards, merges, writes evidence
//	runner <Cxx> <tier> --shard i/n --out f.json   one shard (child process)
//	runner <Cxx> --replay <file>                   re-execute one recorded case
package main

import (
	"bufio"
	"encoding/json"
	"fmt"
	"os"
	"os/exec"
	"path/filepath"
	"regexp"
	"runtime"
	"sort"
	"strconv"
	"strings"
	"sync"
	"time"

	"github.com/mfcochauxlaberge/jsonapi"

	"verif/mc"
	"verif/props"
)

func verifDir() string {
	if d := os.Getenv("VERIF_DIR"); d != "" {
		return d
	}
	return "/verif"
}

func main() {
	if len(os.Args) < 3 {
		fmt.Fprintln(os.Stderr, "usage: runner <Cxx> <quick|thorough> | runner <Cxx> --replay <file>")
		os.Exit(2)
	}
	id := os.Args[1]
	p := props.Get(id)
	if p == nil {
		fmt.Fprintf(os.Stderr, "runner: unknown property %s (have %v)\n", id, props.IDs())
		os.Exit(2)
	}

	if os.Args[2] == "--race-worker" {
		props.C12RaceWorker()
		return
	}
	if os.Args[2] == "--replay" {
		if len(os.Args) < 4 {
			fmt.Fprintln(os.Stderr, "runner: --replay needs a file")
			os.Exit(2)
		}
		os.Exit(replay(p, os.Args[3]))
	}

	tier := os.Args[2]
	if tier != "quick" && tier != "thorough" {
		fmt.Fprintln(os.Stderr, "runner: tier must be quick or thorough")
		os.Exit(2)
	}
	props.Tier = tier

	shard, nshards, out := -1, 1, ""
	var deadline int64
	for i := 3; i < len(os.Args); i++ {
		switch os.Args[i] {
		case "--shard":
			i++
			fmt.Sscanf(os.Args[i], "%d/%d", &shard, &nshards)
		case "--out":
			i++
			out = os.Args[i]
		case "--deadline":
			i++
			deadline, _ = strconv.ParseInt(os.Args[i], 10, 64)
		}
	}

	if shard >= 0 {
		os.Exit(runShard(p, tier, shard, nshards, out, deadline))
	}
	os.Exit(parent(p, tier))
}

// ---------------------------------------------------------------------------
// shard

func runShard(p *props.Prop, tier string, shard, nshards int, out string, deadline int64) int {
	runtime.GOMAXPROCS(1)
	r := mc.NewRun(p.ID, tier)
	if deadline > 0 {
		r.Deadline = time.Unix(deadline, 0)
	}
	exhaustive := true
	for i := range p.Harnesses {
		h := &p.Harnesses[i]
		if h.OnlyTier != "" && h.OnlyTier != tier {
			continue
		}
		t0 := time.Now()
		defer func(name string) {}(h.Name)
		timeIt := func() { r.Max("ms:"+h.Name+" (slowest shard)", time.Since(t0).Milliseconds()) }
		if h.Custom != nil {
			if shard != 0 && !h.Sharded {
				continue
			}
			if !h.Sharded {
				runtime.GOMAXPROCS(runtime.NumCPU())
			}
			func() {
				defer func() {
					if rec := recover(); rec != nil {
						r.InfraError("%s: custom harness panicked: %v", h.Name, rec)
					}
				}()
				h.Custom(&props.Ctx{R: r, Shard: shard, NShards: nshards, Workers: runtime.NumCPU(), Stub: !jsonapi.McInstrumented})
			}()
			runtime.GOMAXPROCS(1)
			timeIt()
			continue
		}
		e := &mc.Explorer{Name: h.Name, Body: h.Body, R: r, Shard: shard, NShards: nshards, Reset: h.Reset, ShardDepth: h.ShardDepth}
		if h.Dev != nil {
			e.DevBound = h.Dev()
		}
		r.Max("dev_bound_completed", int64(e.DevBound))
		if !e.Explore() {
			exhaustive = false
		}
		jsonapi.McInstall(nil)
		timeIt()
	}
	if !exhaustive {
		r.Cap("shard " + strconv.Itoa(shard) + " incomplete")
	}
	if err := r.Save(out); err != nil {
		fmt.Fprintln(os.Stderr, "runner: save:", err)
		return 2
	}
	return 0
}

// ---------------------------------------------------------------------------
// known findings

type finding struct {
	Property string
	Sig      string
	What     string
	Fixed    bool
}

var tokRe = regexp.MustCompile(`^(\S+)=(\S+)$`)

func loadFindings() []finding {
	f, err := os.Open(filepath.Join(verifDir(), "known_findings.txt"))
	if err != nil {
		return nil
	}
	defer f.Close()
	var out []finding
	sc := bufio.NewScanner(f)
	sc.Buffer(make([]byte, 1<<20), 1<<20)
	for sc.Scan() {
		line := strings.TrimSpace(sc.Text())
		if line == "" || strings.HasPrefix(line, "#") {
			continue
		}
		var fd finding
		switch {
		case strings.HasPrefix(line, "finding:"):
			line = strings.TrimSpace(strings.TrimPrefix(line, "finding:"))
		case strings.HasPrefix(line, "fixed:"):
			fd.Fixed = true
			line = strings.TrimSpace(strings.TrimPrefix(line, "fixed:"))
		default:
			continue
		}
		words := strings.Fields(line)
		rest := []string{}
		for _, w := range words {
			if m := tokRe.FindStringSubmatch(w); m != nil && len(rest) == 0 {
				switch m[1] {
				case "property":
					fd.Property = m[2]
					continue
				case "signature":
					fd.Sig = m[2]
					continue
				}
			}
			rest = append(rest, w)
		}
		fd.What = strings.Join(rest, " ")
		out = append(out, fd)
	}
	return out
}

// ---------------------------------------------------------------------------
// parent

func sanitize(s string) string {
	var b strings.Builder
	for _, c := range s {
		switch {
		case c >= 'a' && c <= 'z', c >= 'A' && c <= 'Z', c >= '0' && c <= '9', c == '-', c == '_', c == '.':
			b.WriteRune(c)
		default:
			b.WriteByte('_')
		}
	}
	out := b.String()
	if len(out) > 100 {
		out = out[:100]
	}
	return out + fmt.Sprintf("-%08x", uint32(mc.Hash(s)))
}

func parent(p *props.Prop, tier string) int {
	start := time.Now()
	self, _ := os.Executable()

	nshards := runtime.NumCPU()
	if v := os.Getenv("VERIF_SHARDS"); v != "" {
		nshards, _ = strconv.Atoi(v)
	}
	if nshards < 1 {
		nshards = 1
	}
	budget := 150 * time.Second
	if tier == "thorough" {
		budget = 40 * time.Minute
	}
	if v := os.Getenv("VERIF_BUDGET_S"); v != "" {
		if n, err := strconv.Atoi(v); err == nil {
			budget = time.Duration(n) * time.Second
		}
	}
	deadline := start.Add(budget).Unix()

	tmp, err := os.MkdirTemp("", "verif-run-")
	if err != nil {
		fmt.Fprintln(os.Stderr, "runner:", err)
		return 2
	}
	defer os.RemoveAll(tmp)

	total := mc.NewRun(p.ID, tier)
	var wg sync.WaitGroup
	var mu sync.Mutex
	infra := false
	for s := 0; s < nshards; s++ {
		wg.Add(1)
		go func(s int) {
			defer wg.Done()
			out := filepath.Join(tmp, fmt.Sprintf("shard%d.json", s))
			cmd := exec.Command(self, p.ID, tier, "--shard", fmt.Sprintf("%d/%d", s, nshards), "--out", out,
				"--deadline", strconv.FormatInt(deadline, 10))
			cmd.Stdout = os.Stderr
			cmd.Stderr = os.Stderr
			err := cmd.Run()
			mu.Lock()
			defer mu.Unlock()
			if err != nil {
				total.InfraError("shard %d: %v", s, err)
				infra = true
				return
			}
			r, err := mc.Load(out)
			if err != nil {
				total.InfraError("shard %d: %v", s, err)
				infra = true
				return
			}
			total.Merge(r)
		}(s)
	}
	wg.Wait()

	if p.Race != nil {
		p.Race(&props.Ctx{R: total, Workers: runtime.NumCPU()})
	}
	if p.Post != nil {
		p.Post(&props.Ctx{R: total, Workers: runtime.NumCPU()})
	}

	if len(total.Infra) > 0 {
		infra = true
	}

	// classify violations
	findings := loadFindings()
	known := map[string]finding{}
	for _, f := range findings {
		if f.Property == p.ID && !f.Fixed && f.Sig != "" {
			known[f.Sig] = f
		}
	}
	var sigs []string
	for sig := range total.Viol {
		sigs = append(sigs, sig)
	}
	sort.Strings(sigs)

	knownSeen := []string{}
	newViol := 0
	for _, sig := range sigs {
		v := total.Viol[sig]
		if f, ok := known[sig]; ok {
			fmt.Printf("KNOWN-FINDING: property=%s %s [signature=%s, %d case(s) this run]\n", p.ID, f.What, sig, v.Count)
			knownSeen = append(knownSeen, sig)
			continue
		}
		newViol++
		dir := filepath.Join(verifDir(), "replays", p.ID)
		_ = os.MkdirAll(dir, 0o755)
		path := filepath.Join(dir, sanitize(sig)+".json")
		rep := map[string]any{
			"property": p.ID, "tier": tier, "harness": v.Harness, "signature": sig,
			"message": v.Msg, "choices": v.Choices, "case": v.Render, "count": v.Count,
		}
		if ok, tried := confirmOnStub(p.ID, rep, tmp); tried {
			rep["reproduced_on_original_sources"] = ok
		}
		b, _ := json.MarshalIndent(rep, "", " ")
		_ = os.WriteFile(path, b, 0o644)
		fmt.Printf("VIOLATION property=%s replay=%s\n", p.ID, path)
		fmt.Printf("  signature=%s cases=%d\n  %s\n", sig, v.Count, v.Msg)
	}
	for sig, f := range known {
		if _, ok := total.Viol[sig]; !ok {
			fmt.Printf("note: listed finding not re-observed this run (not an error): property=%s signature=%s %s\n", p.ID, sig, f.What)
		}
	}

	// evidence
	exhaustive := len(total.Caps) == 0 && !infra
	states := total.SetSize("states")
	if states == 0 {
		states = total.SetSize("outcomes")
	}
	transitions := total.Counters["transitions"]
	traces := total.Counters["executions"] + total.Counters["histories"]
	samples := total.Samples
	if len(samples) == 0 {
		samples = []any{"(no sample recorded)"}
	}
	counters := map[string]int64{}
	for k, v := range total.Counters {
		counters[k] = v
	}
	setSizes := map[string]int64{}
	for k := range total.Sets {
		setSizes[k] = total.SetSize(k)
	}
	cov := map[string]any{
		"states":                        states,
		"transitions":                   transitions,
		"traces_validated_against_impl": traces,
		"samples":                       samples,
		"evaluations":                   total.Counters["executions"] + total.Counters["histories"],
		"distinct_nontrivial":           total.SetSize("nontrivial"),
		"rule":                          p.Rule,
		"exhaustive":                    exhaustive,
		"counters":                      counters,
		"distinct_sets":                 setSizes,
		"sets_capped_lower_bound":       total.SetCap,
		"caps_hit":                      total.Caps,
		"notes":                         total.Notes,
		"shards":                        nshards,
		"known_findings_observed":       knownSeen,
		"new_violation_signatures":      newViol,
		"instrumented_build":            jsonapi.McInstrumented,
		"instrumentation_sites":         len(jsonapi.McSites),
		"infra_errors":                  total.Infra,
	}
	seed := 0
	if v := os.Getenv("VERIF_SEED"); v != "" {
		seed, _ = strconv.Atoi(v)
	}
	ev := map[string]any{
		"property_id": p.ID,
		"tier":        tier,
		"seed":        seed,
		"level":       "model_checking",
		"coverage":    cov,
		"assumptions": append([]string{
			"VERIF_SEED is recorded but unused: nothing is random, enumeration is exhaustive within the stated bounds",
			"the explored code is the current /repo working tree, instrumented mechanically (map ranges under explorer control, yield points) and applied with go build -overlay",
		}, p.Assumptions...),
		"wall_s":     time.Since(start).Seconds(),
		"violations": newViol,
	}
	b, _ := json.MarshalIndent(ev, "", " ")
	evDir := filepath.Join(verifDir(), "evidence")
	if r := os.Getenv("VERIF_REPO"); r != "" && r != "/repo" {
		// a run against a scratch copy (mutcheck, seeded changes) never overwrites the
		// evidence of /repo itself
		evDir = filepath.Join(os.Getenv("VERIF_SCRATCH"), "evidence")
	}
	_ = os.MkdirAll(evDir, 0o755)
	if err := os.WriteFile(filepath.Join(evDir, p.ID+".json"), b, 0o644); err != nil {
		fmt.Fprintln(os.Stderr, "runner: evidence:", err)
		return 2
	}

	fmt.Printf("%s %s: executions=%d histories=%d transitions=%d states=%d nontrivial=%d exhaustive=%v known=%d new=%d wall=%.1fs\n",
		p.ID, tier, total.Counters["executions"], total.Counters["histories"], transitions, states,
		total.SetSize("nontrivial"), exhaustive, len(knownSeen), newViol, time.Since(start).Seconds())

	if infra {
		for _, e := range total.Infra {
			fmt.Fprintln(os.Stderr, "INFRA:", e)
		}
	}
	if newViol > 0 {
		// a violation confirmed on the original sources stands even when another part of the run
		// could not be completed (e.g. the changed library made re-executions history-dependent)
		return 1
	}
	if infra {
		return 2
	}
	return 0
}

// confirmOnStub re-executes a violation on the build of the ORIGINAL sources
// (Go runtime map order). Built lazily through $VERIF_STUB_BUILD.
func confirmOnStub(id string, rep map[string]any, tmp string) (ok, tried bool) {
	bin := os.Getenv("VERIF_STUB_BIN")
	build := os.Getenv("VERIF_STUB_BUILD")
	if bin == "" {
		return false, false
	}
	if _, err := os.Stat(bin); err != nil {
		if build == "" {
			return false, false
		}
		c := exec.Command("sh", "-c", build)
		c.Stdout = os.Stderr
		c.Stderr = os.Stderr
		if err := c.Run(); err != nil {
			return false, false
		}
	}
	b, _ := json.Marshal(rep)
	f := filepath.Join(tmp, "stub-replay.json")
	if err := os.WriteFile(f, b, 0o644); err != nil {
		return false, false
	}
	for i := 0; i < 10; i++ {
		c := exec.Command(bin, id, "--replay", f)
		c.Env = append(os.Environ(), "VERIF_REPLAY_QUIET=1")
		err := c.Run()
		if ee, isExit := err.(*exec.ExitError); isExit && ee.ExitCode() == 1 {
			return true, true
		}
	}
	return false, true
}

// ---------------------------------------------------------------------------
// replay

func replay(p *props.Prop, file string) int {
	b, err := os.ReadFile(file)
	if err != nil {
		fmt.Fprintln(os.Stderr, "runner:", err)
		return 2
	}
	var rep struct {
		Tier      string `json:"tier"`
		Harness   string `json:"harness"`
		Signature string `json:"signature"`
		Choices   []int  `json:"choices"`
	}
	if err := json.Unmarshal(b, &rep); err != nil {
		fmt.Fprintln(os.Stderr, "runner:", err)
		return 2
	}
	if rep.Tier != "" {
		props.Tier = rep.Tier
	}
	h := p.Harness(rep.Harness)
	if h == nil {
		fmt.Fprintf(os.Stderr, "runner: unknown harness %q\n", rep.Harness)
		return 2
	}
	r := mc.NewRun(p.ID, props.Tier)
	var fails []mc.Violation
	if h.Custom != nil {
		if h.ReplayCustom == nil {
			fmt.Fprintf(os.Stderr, "runner: harness %q has no replay\n", rep.Harness)
			return 2
		}
		fails = h.ReplayCustom(&props.Ctx{R: r, Workers: 1, NShards: 1, Stub: !jsonapi.McInstrumented}, rep.Choices)
	} else {
		var infra string
		fails, infra = mc.ReplayChoices(h.Name, h.Body, h.Reset, r, rep.Choices)
		if infra != "" {
			fmt.Fprintln(os.Stderr, "runner: replay diverged:", infra)
			return 2
		}
	}
	quiet := os.Getenv("VERIF_REPLAY_QUIET") != ""
	hit := false
	for _, f := range fails {
		if !quiet {
			fmt.Printf("replayed failure: signature=%s\n  %s\n", f.Sig, f.Msg)
		}
		if rep.Signature == "" || f.Sig == rep.Signature {
			hit = true
		}
	}
	if hit {
		if !quiet {
			fmt.Printf("VIOLATION property=%s replay=%s\n", p.ID, file)
		}
		return 1
	}
	if !quiet {
		fmt.Printf("replay of %s: recorded violation not reproduced (instrumented=%v)\n", file, jsonapi.McInstrumented)
	}
	return 0
}
